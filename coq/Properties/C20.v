(* Property C20 — Declaration algebra: iteration, membership, + and - obey ordered-set laws.
   Only statements here; proofs are in Proofs/DeclAlg.v, the model in Model/DeclAlg.v, the
   vocabulary (reach, implies, extends, tree_leaves, interleave, wf) in Spec/DeclAlg.v.

   [g] is a static specification graph, [ifs] its interface nodes (the other nodes are class
   specifications), node 0 = Interface.  [wf g ifs = true] says: bases carry smaller numbers
   than their node (creation order, hence acyclic) and every interface is a node of [g]; every
   finite DAG has such a numbering.  A declaration is its list of bases; all operations are
   functions, so operands cannot change (C20_operands_unchanged states it with a store). *)
From Coq Require Import List Arith Bool.
Import ListNotations.
From ZI Require Import Model.Ro Model.DeclAlg Spec.DeclAlg Proofs.DeclAlg Gen.DeclAlgKernel Proofs.DeclAlgKernel.

(* "keeping first occurrences" is this recursion *)
Theorem C20_dedupe_keeps_first : forall x l,
  dedupe [] = [] /\ dedupe (x :: l) = x :: filter (fun y => negb (Nat.eqb y x)) (dedupe l).
Proof. intros x l. split; [reflexivity|apply dedupe_cons]. Qed.
Print Assumptions C20_dedupe_keeps_first.

(* iteration = the left-to-right flattening of the argument tree (nested sequences and
   Declaration arguments in place; a class specification contributes its declared, then its
   inherited interfaces), first occurrences kept; no duplicates; interfaces only *)
Theorem C20_iter_exact : forall g ifs args,
  iter g ifs (mk_decl g ifs args) = dedupe (flat_map (tree_leaves g ifs) args) /\
  NoDup (iter g ifs (mk_decl g ifs args)) /\
  (forall i, In i (iter g ifs (mk_decl g ifs args)) -> is_iface ifs i = true).
Proof. exact iter_exact_lemma. Qed.
Print Assumptions C20_iter_exact.

(* x in A  <->  x is one of the interfaces A iterates over *)
Theorem C20_contains_iff_iter : forall g ifs, wf g ifs = true -> forall d x,
  contains g ifs d x = true <-> In x (iter g ifs d).
Proof. exact contains_iff_lemma. Qed.
Print Assumptions C20_contains_iff_iter.

(* the extends tests the algebra uses are reachability in the graph (plus: everything implies
   Interface) *)
Theorem C20_extends_is_reachability : forall g ifs, wf g ifs = true -> forall x y,
  (is_or_extends g x y = true <-> (y = root \/ reach g x y)) /\
  (extends_strict g x y = true <-> (x <> y /\ (y = root \/ reach g x y))).
Proof.
  intros g ifs W x y. split; [apply (is_or_extends_iff g ifs W)|apply (extends_strict_iff g ifs W)].
Qed.
Print Assumptions C20_extends_is_reachability.

(* flattened() lists, in the resolution order Model/Ro.v computes for the declaration node
   and without repeats, exactly the interfaces reachable from the iterated ones -- and
   Interface itself, even when nothing is declared *)
Theorem C20_flattened_members : forall g ifs, wf g ifs = true -> forall d,
  flattened g ifs d =
    filter (is_iface ifs)
           (fresh_sro (S (fresh_id g d)) root ((fresh_id g d, d) :: g) (fresh_id g d)) /\
  NoDup (flattened g ifs d) /\
  (forall y, In y (flattened g ifs d) <->
             is_iface ifs y = true /\ (y = root \/ exists i, In i (iter g ifs d) /\ reach g i y)).
Proof.
  intros g ifs W d. split; [reflexivity|]. split; [apply (flattened_NoDup g ifs W)|].
  apply (flattened_members_lemma g ifs W).
Qed.
Print Assumptions C20_flattened_members.

(* as the property words it: when some declared interface leads to Interface (always the
   case in a hierarchy rooted at Interface), flattened() = the declared interfaces plus
   everything they extend *)
Theorem C20_flattened_members_nonempty : forall g ifs, wf g ifs = true -> forall d,
  (exists i, In i (iter g ifs d) /\ reach g i root) ->
  forall y, In y (flattened g ifs d) <->
            is_iface ifs y = true /\ exists i, In i (iter g ifs d) /\ reach g i y.
Proof. exact flattened_nonempty_lemma. Qed.
Print Assumptions C20_flattened_members_nonempty.

(* A - B keeps, in order, the interfaces of A that neither are nor extend one of B *)
Theorem C20_sub_spec : forall g ifs a b,
  iter g ifs (sub g ifs a b) =
  filter (fun i => negb (existsb (fun j => is_or_extends g i j) (iter g ifs b))) (iter g ifs a).
Proof. exact sub_spec_lemma. Qed.
Print Assumptions C20_sub_spec.

Theorem C20_sub_members : forall g ifs, wf g ifs = true -> forall a b x,
  In x (iter g ifs (sub g ifs a b)) <->
  In x (iter g ifs a) /\ ~ exists j, In j (iter g ifs b) /\ (j = root \/ reach g x j).
Proof. exact sub_members_lemma. Qed.
Print Assumptions C20_sub_members.

(* A + B : exactly the interfaces of both, no duplicates *)
Theorem C20_add_members : forall g ifs a b,
  NoDup (iter g ifs (add g ifs a b)) /\
  (forall x, In x (iter g ifs (add g ifs a b)) <-> In x (iter g ifs a) \/ In x (iter g ifs b)).
Proof. exact add_members_lemma. Qed.
Print Assumptions C20_add_members.

(* A + B = front ++ A ++ back : A's interfaces stay together in their order; the new
   interfaces of B are split, order kept, into front and back; EXACT placement rule as
   implemented: a new interface goes in front iff it strictly extends an interface of A or
   an earlier new interface of B that went to the back *)
Theorem C20_add_spec : forall g ifs, wf g ifs = true -> forall a b,
  let new := filter (fun i => negb (mem i (iter g ifs a))) (iter g ifs b) in
  exists front back,
    iter g ifs (add g ifs a b) = front ++ iter g ifs a ++ back /\
    interleave new front back /\
    (forall p x q, new = p ++ x :: q ->
       (In x front <->
        exists y, (In y (iter g ifs a) \/ (In y p /\ In y back)) /\
                  (x <> y /\ (y = root \/ reach g x y)))).
Proof. exact add_spec_lemma. Qed.
Print Assumptions C20_add_spec.

(* the part of the worded rule that always holds: every new interface that extends an
   interface of A is in front, and nothing at the back extends an interface of A *)
Theorem C20_add_extenders_of_A_in_front : forall g ifs a b front back,
  let new := filter (fun i => negb (mem i (iter g ifs a))) (iter g ifs b) in
  iter g ifs (add g ifs a b) = front ++ iter g ifs a ++ back ->
  interleave new front back ->
  (forall p x q, new = p ++ x :: q ->
     (In x front <->
      exists y, (In y (iter g ifs a) \/ (In y p /\ In y back)) /\
                (x <> y /\ (y = root \/ reach g x y)))) ->
  (forall x y, In x new -> In y (iter g ifs a) -> x <> y /\ (y = root \/ reach g x y) -> In x front) /\
  (forall x y, In x back -> In y (iter g ifs a) -> ~ (x <> y /\ (y = root \/ reach g x y))).
Proof. exact add_in_front_lemma. Qed.
Print Assumptions C20_add_extenders_of_A_in_front.

(* the rule as the property words it ("the new interfaces of B that extend an interface of A
   in front, the others at the end") holds when no new interface of B extends another new
   interface of B ... *)
Theorem C20_add_as_worded_partial : forall g ifs, wf g ifs = true -> forall a b,
  let new := filter (fun i => negb (mem i (iter g ifs a))) (iter g ifs b) in
  let extA := fun x => existsb (fun y => extends_strict g x y) (iter g ifs a) in
  (forall x y, In x new -> In y new -> ~ (x <> y /\ (y = root \/ reach g x y))) ->
  iter g ifs (add g ifs a b) =
  filter extA new ++ iter g ifs a ++ filter (fun x => negb (extA x)) new.
Proof. exact add_as_worded_lemma. Qed.
Print Assumptions C20_add_as_worded_partial.

(* ... and fails without that hypothesis: with I2 <- I3 and an unrelated I1,
   Declaration(I1) + Declaration(I2, I3) is [I3, I1, I2]: I3 is in front although it extends no
   interface of the left operand (it extends I2, which went to the back).  This is what the
   code does (and what keeps the resolution order consistent); the wording is imprecise. *)
Theorem C20_add_as_worded_refuted : exists g ifs a b,
  wf g ifs = true /\
  let new := filter (fun i => negb (mem i (iter g ifs a))) (iter g ifs b) in
  let extA := fun x => existsb (fun y => extends_strict g x y) (iter g ifs a) in
  iter g ifs (add g ifs a b) <>
  filter extA new ++ iter g ifs a ++ filter (fun x => negb (extA x)) new.
Proof.
  exists [(0, []); (1, [0]); (2, [0]); (3, [2])], [0; 1; 2; 3], [1], [2; 3].
  split; [reflexivity|]. vm_compute. discriminate.
Qed.
Print Assumptions C20_add_as_worded_refuted.

(* x + A for an interface x is A.__radd__(x) = A + x : A first *)
Theorem C20_radd_is_add : forall g ifs x a,
  is_iface ifs x = true ->
  radd g ifs x a = add g ifs a [x] /\
  iter g ifs (radd g ifs x a) =
    if mem x (iter g ifs a) then iter g ifs a
    else if existsb (fun y => extends_strict g x y) (iter g ifs a) then x :: iter g ifs a
         else iter g ifs a ++ [x].
Proof. intros g ifs x a H. split; [reflexivity|apply (radd_lemma g ifs x a H)]. Qed.
Print Assumptions C20_radd_is_add.

(* no operation modifies its operands: in the store-passing version of the model every
   history of constructions, additions, subtractions and queries leaves every existing
   declaration as it was (by construction: the model's operations are functions; the driver
   checks the same on the code with snapshots) *)
Theorem C20_operands_unchanged : forall g ifs ops s i, i < length s ->
  nth_error (fold_left (dstep g ifs) ops s) i = nth_error s i.
Proof. intros g ifs ops. exact (operands_unchanged_lemma g ifs ops). Qed.
Print Assumptions C20_operands_unchanged.

(* alsoProvides: previous direct interfaces (unless the class already implies them) stay,
   first and in order; the new arguments follow *)
Theorem C20_alsoProvides_appends : forall g ifs c p args,
  exists bs, also_provides g ifs c p args = Some bs /\
    iter g ifs (directly_provided_by (Some bs)) =
    iter g ifs (strip_cls g c (iter g ifs (directly_provided_by p) ++ mk_decl g ifs args)) /\
    (forall x, In x (iter g ifs (directly_provided_by p)) -> is_or_extends g c x = false ->
               In x (iter g ifs (directly_provided_by (Some bs)))).
Proof.
  intros g ifs c p args. pose proof (also_provides_lemma g ifs c p args) as H.
  destruct (also_provides g ifs c p args) as [bs|]; [|destruct H]. exists bs. split; [reflexivity|exact H].
Qed.
Print Assumptions C20_alsoProvides_appends.

(* noLongerProvides(ob, I) removes I AND every directly provided interface extending I;
   it raises ValueError (after the removal) exactly when the class still implies I *)
Theorem C20_noLongerProvides_removes_subinterfaces : forall g ifs, wf g ifs = true -> forall c p i,
  is_iface ifs i = true ->
  (forall x, In x (iter g ifs (directly_provided_by (fst (no_longer_provides g ifs c p i)))) <->
             In x (iter g ifs (directly_provided_by p)) /\
             ~ (i = root \/ reach g x i) /\ ~ (x = root \/ reach g c x)) /\
  (snd (no_longer_provides g ifs c p i) = true <-> (i = root \/ reach g c i)).
Proof. exact no_longer_provides_members_lemma. Qed.
Print Assumptions C20_noLongerProvides_removes_subinterfaces.

Theorem C20_noLongerProvides_exact : forall g ifs c p i, is_iface ifs i = true ->
  iter g ifs (directly_provided_by (fst (no_longer_provides g ifs c p i))) =
  filter (fun x => negb (is_or_extends g c x))
         (filter (fun x => negb (is_or_extends g x i)) (iter g ifs (directly_provided_by p))).
Proof. exact no_longer_provides_exact_lemma. Qed.
Print Assumptions C20_noLongerProvides_exact.

(* ---- the tie to the source TEXT.  Gen/DeclAlgKernel.v is rewritten on every run by the
   fail-closed translator harness/translate/declalg.py from declarations.py / interface.py; its
   definitions are parametric in what OTHER objects do (x.interfaces(), x.extends(y, strict),
   implementedBy, directlyProvides ...).  Instantiated with the model's notions they are, for
   all inputs, the definitions of Model/DeclAlg.v that the theorems above are about. *)

(* Specification.extends / SpecificationBase.isOrExtends with "y in x._implied" := is_or_extends *)
Theorem C20_generated_extends_eq_model : forall g x y,
  gen_extends (is_or_extends g) x y true = extends_strict g x y /\
  gen_extends (is_or_extends g) x y false = is_or_extends g x y /\
  gen_isOrExtends (is_or_extends g) x y = is_or_extends g x y.
Proof.
  intros g x y. split; [apply gen_extends_strict|]. split; [apply gen_extends_nonstrict|apply gen_isOrExtends_eq].
Qed.
Print Assumptions C20_generated_extends_eq_model.

(* Specification.interfaces (the seen-dict loop) is keep-first dedupe of the bases' interfaces,
   whatever the bases answer; with InterfaceClass.interfaces it is the model's recursion *)
Theorem C20_generated_interfaces_eq_model : forall g ifs,
  (forall (nI : node -> list node) bs, gen_Specification_interfaces nI bs = dedupe (flat_map nI bs)) /\
  (forall f x, interfaces_f g ifs (S f) x =
               if is_iface ifs x then gen_InterfaceClass_interfaces x
               else gen_Specification_interfaces (interfaces_f g ifs f) (bases g x)) /\
  (forall d, decl_interfaces g ifs d = gen_Specification_interfaces (interfaces g ifs) d).
Proof.
  intros g ifs. split; [exact gen_spec_interfaces_eq|]. split.
  - intros f x. cbn [interfaces_f]. destruct (is_iface ifs x); [reflexivity|].
    symmetry. apply gen_spec_interfaces_eq.
  - intros d. symmetry. apply gen_spec_interfaces_eq.
Qed.
Print Assumptions C20_generated_interfaces_eq_model.

(* _normalizeargs (with its output accumulator) and Declaration.__init__ *)
Theorem C20_generated_normalizeargs_eq_model : forall g ifs,
  (forall t out, gen_normalizeargs (decl_interfaces g ifs) t out = out ++ normalize g ifs t) /\
  (forall args, gen_Declaration (decl_interfaces g ifs) args = mk_decl g ifs args).
Proof. intros g ifs. split; [exact (gen_normalizeargs_eq g ifs)|exact (gen_Declaration_eq g ifs)]. Qed.
Print Assumptions C20_generated_normalizeargs_eq_model.

(* __contains__ / __iter__ / flattened; the declaration's own extends is the generated
   Specification.extends on the declaration node *)
Theorem C20_generated_queries_eq_model : forall g ifs d x,
  gen_contains (decl_interfaces g ifs)
               (fun d x s => gen_extends (fun _ y => mem y (decl_sro g d)) (fresh_id g d) x s) d x
  = contains g ifs d x /\
  gen_iter (decl_interfaces g ifs) d = iter g ifs d /\
  gen_flattened (flattened g ifs) d = flattened g ifs d.
Proof. intros. repeat split. Qed.
Print Assumptions C20_generated_queries_eq_model.

Theorem C20_generated_sub_eq_model : forall g ifs a b,
  gen_sub (decl_interfaces g ifs) (gen_extends (is_or_extends g)) a b = sub g ifs a b.
Proof. exact gen_sub_eq. Qed.
Print Assumptions C20_generated_sub_eq_model.

Theorem C20_generated_add_eq_model : forall g ifs a b x,
  gen_add (decl_interfaces g ifs) (gen_extends (is_or_extends g)) a b = add g ifs a b /\
  gen_radd (decl_interfaces g ifs) (gen_extends (is_or_extends g)) a [x] = radd g ifs x a.
Proof. intros g ifs a b x. split; [apply gen_add_eq|apply gen_radd_eq]. Qed.
Print Assumptions C20_generated_add_eq_model.

(* _add_interfaces_to_cls, and directlyProvides' effect expressed through it *)
Theorem C20_generated_add_interfaces_to_cls_eq_model : forall g ifs l c args,
  gen_add_interfaces_to_cls (gen_isOrExtends (is_or_extends g)) (fun k => k) l c = strip_cls g c l ++ [c] /\
  directly_provides g ifs c args =
  gen_add_interfaces_to_cls (gen_isOrExtends (is_or_extends g)) (fun k => k)
                            (gen_Declaration (decl_interfaces g ifs) args) c.
Proof. intros g ifs l c args. split; [reflexivity|apply directly_provides_via_kernel]. Qed.
Print Assumptions C20_generated_add_interfaces_to_cls_eq_model.

Theorem C20_generated_directlyProvidedBy_eq_model : forall g ifs p,
  gen_directlyProvidedBy (decl_interfaces g ifs) (fun _ => false) p = directly_provided_by p.
Proof. exact gen_directlyProvidedBy_eq. Qed.
Print Assumptions C20_generated_directlyProvidedBy_eq_model.

Theorem C20_generated_alsoProvides_eq_model : forall g ifs c p args,
  gen_alsoProvides (decl_interfaces g ifs) (fun _ => false)
                   (fun _ args => Some (directly_provides g ifs c args)) p args
  = (also_provides g ifs c p args, false).
Proof. exact gen_alsoProvides_eq. Qed.
Print Assumptions C20_generated_alsoProvides_eq_model.

Theorem C20_generated_noLongerProvides_eq_model : forall g ifs c p i,
  gen_noLongerProvides (decl_interfaces g ifs) (fun _ => false) (gen_extends (is_or_extends g))
                       (fun i st => match st with Some bs => mem i (decl_sro g bs) | None => false end)
                       (fun _ args => Some (directly_provides g ifs c args)) p i
  = no_longer_provides g ifs c p i.
Proof. exact gen_noLongerProvides_eq. Qed.
Print Assumptions C20_generated_noLongerProvides_eq_model.

(* ---- non-vacuity: a concrete well-formed world with non-trivial answers.
   0 = Interface; I1 <- I2 <- I3 (a chain); I4 unrelated; 5 = implementedBy(object);
   6 = implementedBy(K) where K declares I3. *)
Definition ex_g : graph := [(0, []); (1, [0]); (2, [1]); (3, [2]); (4, [0]); (5, []); (6, [3; 5])].
Definition ex_ifs : list node := [0; 1; 2; 3; 4].

Example C20_witness :
  wf ex_g ex_ifs = true /\
  (* nested tuples, a class specification leaf and a Declaration argument, flattened in place *)
  iter ex_g ex_ifs (mk_decl ex_g ex_ifs [Leaf 2; Seq [Leaf 4; Seq [Leaf 2; Leaf 6]]; OfDecl [1; 4]]) = [2; 4; 3; 1] /\
  map (contains ex_g ex_ifs [2; 4]) [0; 1; 2; 3; 4; 5; 6] = [false; false; true; false; true; false; false] /\
  flattened ex_g ex_ifs [3; 4] = [3; 2; 1; 4; 0] /\
  flattened ex_g ex_ifs [] = [0] /\
  (exists i, In i (iter ex_g ex_ifs [3; 4]) /\ reach ex_g i root) /\
  (* - removes the interface and its extenders *)
  iter ex_g ex_ifs (sub ex_g ex_ifs [1; 3; 4; 2] [2]) = [1; 4] /\
  (* + : the extender of A goes in front, the unrelated one to the end *)
  iter ex_g ex_ifs (add ex_g ex_ifs [2] [4; 3; 2]) = [3; 2; 4] /\
  iter ex_g ex_ifs (add ex_g ex_ifs [4] [1; 2]) = [2; 4; 1] /\
  iter ex_g ex_ifs (radd ex_g ex_ifs 1 [4]) = [4; 1] /\
  (* instance of the plain class (5): provide I1, I3, I4 then remove I2: I3 goes too *)
  (let p := also_provides ex_g ex_ifs 5 None [Leaf 1; Leaf 3; Leaf 4] in
   iter ex_g ex_ifs (directly_provided_by p) = [1; 3; 4] /\
   iter ex_g ex_ifs (directly_provided_by (fst (no_longer_provides ex_g ex_ifs 5 p 2))) = [1; 4] /\
   snd (no_longer_provides ex_g ex_ifs 5 p 2) = false /\
   snd (no_longer_provides ex_g ex_ifs 5 p 0) = true) /\
  (* the store only grows *)
  nth_error (fold_left (dstep ex_g ex_ifs) [OMk [Leaf 3]; OAdd 0 1; OSub 0 1; OQuery 0] [[1; 4]]) 0 = Some [1; 4].
Proof.
  repeat split; try (vm_compute; reflexivity).
  exists 3. split; [vm_compute; tauto|].
  apply reach_step with 2; [left; reflexivity|]. apply reach_step with 1; [left; reflexivity|].
  apply reach_step with 0; [left; reflexivity|]. apply reach_refl.
Qed.
