(* placeholder while the tie is being developed *)
From ZI Require Import Model.DeclAlg.
