(* Property C06 — registries consult exactly their current base chain, in resolution order.
   Only statements here; proofs are in Proofs/RegChain.v.  The model is Model/RegSys.v (the
   transcription of adapter.py's BaseAdapterRegistry / AdapterRegistry / VerifyingAdapterRegistry
   and their lookup objects); [final W call [] ops] is the system reached by the history [ops]
   from nothing, for ANY specification world [W] and ANY behaviour [call] of registered factories.
   [wf_hist fl 0 ops]: all registries have flavour [fl], a new registry's bases exist, __bases__
   is assigned registries with smaller numbers (acyclic), operations (rebuild() included) address
   existing registries (Spec/RegChain.v).  [fresh_ro s r] = ro.ro(registry r) computed from scratch over
   the CURRENT __bases__ of all registries (Model/RegSys.v, Model/Ro.v: C3);
   [chain_regs s r] = the storages of those registries in that order;
   [Reach (Bs s) r m] = m is r or a transitive base of r through the current __bases__. *)
From Coq Require Import List Arith Bool.
Import ListNotations.
From ZI Require Import Model.Ro Model.Adapter Model.Lookup Model.RegSys Model.RegPrim Spec.RegChain Proofs.RegChain
     Proofs.RegChainMixed Gen.RegChainKernel Proofs.RegChainKernel Model.VerifyCPrims Gen.VerifyC Proofs.VerifyC.

(* (a) push flavour: after every history the cached ``ro`` of EVERY registry is the C3 order of
   the current base graph — whichever registry's __bases__ were assigned, at any level *)
Theorem C06_push_ro_coherent : forall W call ops, wf_hist Push 0 ops = true ->
  forall r, r < length (final W call [] ops) ->
  rs_ro (get (final W call [] ops) r) = fresh_ro (final W call [] ops) r.
Proof. exact push_ro_coherent_hist. Qed.
Print Assumptions C06_push_ro_coherent.

(* the invariant that makes (a) true: _v_subregistries mirrors __bases__ (so _refresh_ro and
   changed() reach every registry below) *)
Theorem C06_push_subregistries_mirror_bases : forall W call ops, wf_hist Push 0 ops = true ->
  forall r b, In b (rs_bases (get (final W call [] ops) r)) ->
              In r (rs_subs (get (final W call [] ops) b)) /\ b < r.
Proof. exact push_subregistries_mirror_bases_hist. Qed.
Print Assumptions C06_push_subregistries_mirror_bases.

(* (b) verifying flavour: once _verify has run (every lookup entry point runs it first), the
   registry's ``ro`` is the C3 order of the current base graph; _verify changes neither the base
   graph nor any registration *)
Theorem C06_verifying_ro_coherent_after_verify : forall W call ops r, wf_hist Verifying 0 ops = true ->
  r < length (final W call [] ops) ->
  rs_ro (get (verify (final W call [] ops) r) r) = fresh_ro (verify (final W call [] ops) r) r /\
  fresh_ro (verify (final W call [] ops) r) r = fresh_ro (final W call [] ops) r /\
  (forall i, rs_reg (get (verify (final W call [] ops) r) i) = rs_reg (get (final W call [] ops) i)).
Proof. exact verifying_ro_coherent_after_verify_hist. Qed.
Print Assumptions C06_verifying_ro_coherent_after_verify.

(* the invariant that makes (b) true: the snapshot is taken over ro[1:], is never ahead of the
   generations, and as long as it still matches them the cached order is current *)
Theorem C06_verifying_snapshot_valid : forall W call ops r, wf_hist Verifying 0 ops = true ->
  r < length (final W call [] ops) ->
  rs_ro (get (final W call [] ops) r) = r :: rs_vro (get (final W call [] ops) r) /\
  Forall2 le (rs_vgen (get (final W call [] ops) r))
             (gens (final W call [] ops) (rs_vro (get (final W call [] ops) r))) /\
  (gens (final W call [] ops) (rs_vro (get (final W call [] ops) r)) = rs_vgen (get (final W call [] ops) r) ->
   rs_ro (get (final W call [] ops) r) = fresh_ro (final W call [] ops) r).
Proof. exact verifying_snapshot_valid_hist. Qed.
Print Assumptions C06_verifying_snapshot_valid.

(* the current order lists exactly the registries reachable through the current __bases__,
   the registry itself first *)
Theorem C06_current_chain_is_reachable_set : forall W call fl ops r, wf_hist fl 0 ops = true ->
  r < length (final W call [] ops) ->
  (exists t, fresh_ro (final W call [] ops) r = r :: t) /\
  (forall y, In y (fresh_ro (final W call [] ops) r) <-> Reach (Bs (final W call [] ops)) r y).
Proof. exact current_chain_is_reachable_set_hist. Qed.
Print Assumptions C06_current_chain_is_reachable_set.

(* (c) what lookups answer, either flavour.  On a cache miss the three entry points return the
   uncached computation over the storages of the CURRENT chain, nearest first. *)
Theorem C06_lookup_uses_current_chain : forall W call fl ops r req p n, wf_hist fl 0 ops = true ->
  r < length (final W call [] ops) ->
  aget cache_key_eqb (c_cache (rs_caches (get (final W call [] ops) r))) (p, n, ckey_of req) = None ->
  snd (step W call (final W call [] ops) (QLookup r req p (NStr n))) =
  enc_res_value (res_of (uncached_lookup W (chain_regs (final W call [] ops) r) req p n)).
Proof. exact lookup_uses_current_chain_hist. Qed.
Print Assumptions C06_lookup_uses_current_chain.

Theorem C06_lookupAll_uses_current_chain : forall W call fl ops r req p, wf_hist fl 0 ops = true ->
  r < length (final W call [] ops) ->
  aget mkey_eqb (c_mcache (rs_caches (get (final W call [] ops) r))) (p, req) = None ->
  snd (step W call (final W call [] ops) (QLookupAll r req p)) =
  enc_pairs (uncached_lookupAll W (chain_regs (final W call [] ops) r) req p).
Proof. exact lookupAll_uses_current_chain_hist. Qed.
Print Assumptions C06_lookupAll_uses_current_chain.

Theorem C06_subscriptions_uses_current_chain : forall W call fl ops r req p, wf_hist fl 0 ops = true ->
  r < length (final W call [] ops) ->
  aget sckey_eqb (c_scache (rs_caches (get (final W call [] ops) r))) (p, req) = None ->
  snd (step W call (final W call [] ops) (QSubscriptions r req p)) =
  map vid (uncached_subscriptions W (chain_regs (final W call [] ops) r) req p).
Proof. exact subscriptions_uses_current_chain_hist. Qed.
Print Assumptions C06_subscriptions_uses_current_chain.

(* warm caches: right after ANY effective change at a registry m — its __bases__ assigned, or a
   registration / subscription added or removed there ([bump_target] names m) — every registry r
   that reaches m through the current __bases__ (r = m included) gets its caches emptied: by the
   change notification (push) or by the failing generation check of its next _verify
   (verifying) ... *)
Theorem C06_change_empties_caches_below : forall W call fl ops o m r, wf_hist fl 0 (ops ++ [o]) = true ->
  bump_target W (final W call [] ops) o = Some m ->
  r < length (final W call [] (ops ++ [o])) -> Reach (Bs (final W call [] (ops ++ [o]))) r m ->
  rs_caches (get (verify (final W call [] (ops ++ [o])) r) r) = empty_caches.
Proof. exact change_empties_caches_below_hist. Qed.
Print Assumptions C06_change_empties_caches_below.

(* ... hence its lookup, lookupAll and subscriptions answer from the current chain, whatever
   was cached before *)
Theorem C06_answers_after_change : forall W call fl ops o m r, wf_hist fl 0 (ops ++ [o]) = true ->
  bump_target W (final W call [] ops) o = Some m ->
  r < length (final W call [] (ops ++ [o])) -> Reach (Bs (final W call [] (ops ++ [o]))) r m ->
  (forall req p n, snd (step W call (final W call [] (ops ++ [o])) (QLookup r req p (NStr n))) =
                   enc_res_value (res_of (uncached_lookup W (chain_regs (final W call [] (ops ++ [o])) r) req p n))) /\
  (forall req p, snd (step W call (final W call [] (ops ++ [o])) (QLookupAll r req p)) =
                 enc_pairs (uncached_lookupAll W (chain_regs (final W call [] (ops ++ [o])) r) req p)) /\
  (forall req p, snd (step W call (final W call [] (ops ++ [o])) (QSubscriptions r req p)) =
                 map vid (uncached_subscriptions W (chain_regs (final W call [] (ops ++ [o])) r) req p)).
Proof. exact answers_after_change_hist. Qed.
Print Assumptions C06_answers_after_change.

(* push flavour: after_bump / _setBases leave the caches of m and of all its transitive
   sub-registries empty in the state itself *)
Theorem C06_push_change_empties_caches : forall W call ops o m r, wf_hist Push 0 (ops ++ [o]) = true ->
  bump_target W (final W call [] ops) o = Some m -> r < length (final W call [] (ops ++ [o])) ->
  Reach (Bs (final W call [] (ops ++ [o]))) r m ->
  rs_caches (get (final W call [] (ops ++ [o])) r) = empty_caches.
Proof. exact push_change_empties_caches_hist. Qed.
Print Assumptions C06_push_change_empties_caches.

(* verifying flavour: _verify empties the cache whenever a generation of the snapshot differs *)
Theorem C06_verifying_verify_empties_cache : forall W call ops r, wf_hist Verifying 0 ops = true ->
  r < length (final W call [] ops) ->
  gens (final W call [] ops) (rs_vro (get (final W call [] ops) r)) <> rs_vgen (get (final W call [] ops) r) ->
  rs_caches (get (verify (final W call [] ops) r) r) = empty_caches.
Proof. exact verifying_verify_empties_hist. Qed.
Print Assumptions C06_verifying_verify_empties_cache.

(* ------------------------------------------------------------------ MIXED registry graphs
   [mwf_hist [] ops]: registries of both flavours; a push registry (AdapterRegistry) only ever gets push
   bases (the real code raises AttributeError otherwise: VerifyingAdapterRegistry has no
   _addSubregistry), a verifying registry may be based on registries of either flavour — the
   persistent site manager over the global registry.  The homogeneous theorems above are the
   special case (C06_homogeneous_histories_are_mixed). *)
Theorem C06_homogeneous_histories_are_mixed : forall f ops, wf_hist f 0 ops = true -> mwf_hist [] ops = true.
Proof. exact (fun f ops => wf_hist_mwf f ops 0). Qed.
Print Assumptions C06_homogeneous_histories_are_mixed.

(* push members are coherent in the state itself, every member once its _verify has run *)
Theorem C06_mixed_ro_coherent : forall W call ops r, mwf_hist [] ops = true ->
  r < length (final W call [] ops) ->
  (rs_flavour (get (final W call [] ops) r) = Push ->
   rs_ro (get (final W call [] ops) r) = fresh_ro (final W call [] ops) r) /\
  rs_ro (get (verify (final W call [] ops) r) r) = fresh_ro (verify (final W call [] ops) r) r /\
  fresh_ro (verify (final W call [] ops) r) r = fresh_ro (final W call [] ops) r /\
  (forall i, rs_reg (get (verify (final W call [] ops) r) i) = rs_reg (get (final W call [] ops) i)).
Proof. exact mixed_ro_coherent_hist. Qed.
Print Assumptions C06_mixed_ro_coherent.

(* the flavour discipline and the sub-registry mirror of the PUSH registries (a verifying registry
   is nobody's sub-registry: it is never notified) *)
Theorem C06_mixed_discipline : forall W call ops, mwf_hist [] ops = true ->
  (forall r b, rs_flavour (get (final W call [] ops) r) = Push -> In b (rs_bases (get (final W call [] ops) r)) ->
               rs_flavour (get (final W call [] ops) b) = Push /\ In r (rs_subs (get (final W call [] ops) b)) /\ b < r) /\
  (forall r y, In y (rs_subs (get (final W call [] ops) r)) ->
               rs_flavour (get (final W call [] ops) r) = Push /\ rs_flavour (get (final W call [] ops) y) = Push).
Proof. exact mixed_discipline_hist. Qed.
Print Assumptions C06_mixed_discipline.

Theorem C06_mixed_current_chain_is_reachable_set : forall W call ops r, mwf_hist [] ops = true ->
  r < length (final W call [] ops) ->
  (exists t, fresh_ro (final W call [] ops) r = r :: t) /\
  (forall y, In y (fresh_ro (final W call [] ops) r) <-> Reach (Bs (final W call [] ops)) r y).
Proof. exact mixed_chain_is_reachable_set_hist. Qed.
Print Assumptions C06_mixed_current_chain_is_reachable_set.

Theorem C06_mixed_lookup_uses_current_chain : forall W call ops r req p n, mwf_hist [] ops = true ->
  r < length (final W call [] ops) ->
  aget cache_key_eqb (c_cache (rs_caches (get (final W call [] ops) r))) (p, n, ckey_of req) = None ->
  snd (step W call (final W call [] ops) (QLookup r req p (NStr n))) =
  enc_res_value (res_of (uncached_lookup W (chain_regs (final W call [] ops) r) req p n)).
Proof. exact mixed_lookup_uses_current_chain_hist. Qed.
Print Assumptions C06_mixed_lookup_uses_current_chain.

Theorem C06_mixed_lookupAll_uses_current_chain : forall W call ops r req p, mwf_hist [] ops = true ->
  r < length (final W call [] ops) ->
  aget mkey_eqb (c_mcache (rs_caches (get (final W call [] ops) r))) (p, req) = None ->
  snd (step W call (final W call [] ops) (QLookupAll r req p)) =
  enc_pairs (uncached_lookupAll W (chain_regs (final W call [] ops) r) req p).
Proof. exact mixed_lookupAll_uses_current_chain_hist. Qed.
Print Assumptions C06_mixed_lookupAll_uses_current_chain.

Theorem C06_mixed_subscriptions_uses_current_chain : forall W call ops r req p, mwf_hist [] ops = true ->
  r < length (final W call [] ops) ->
  aget sckey_eqb (c_scache (rs_caches (get (final W call [] ops) r))) (p, req) = None ->
  snd (step W call (final W call [] ops) (QSubscriptions r req p)) =
  map vid (uncached_subscriptions W (chain_regs (final W call [] ops) r) req p).
Proof. exact mixed_subscriptions_uses_current_chain_hist. Qed.
Print Assumptions C06_mixed_subscriptions_uses_current_chain.

(* right after an effective change at a registry m of EITHER flavour, every registry below m of
   EITHER flavour (a verifying one below a changed push one included: it compares the generations of
   all members of its snapshot) has, or gets on its next _verify, empty caches ... *)
Theorem C06_mixed_change_empties_caches_below : forall W call ops o m r, mwf_hist [] (ops ++ [o]) = true ->
  bump_target W (final W call [] ops) o = Some m ->
  r < length (final W call [] (ops ++ [o])) -> Reach (Bs (final W call [] (ops ++ [o]))) r m ->
  rs_caches (get (verify (final W call [] (ops ++ [o])) r) r) = empty_caches.
Proof. exact mixed_change_empties_caches_below_hist. Qed.
Print Assumptions C06_mixed_change_empties_caches_below.

(* ... and answers from its current chain *)
Theorem C06_mixed_answers_after_change : forall W call ops o m r, mwf_hist [] (ops ++ [o]) = true ->
  bump_target W (final W call [] ops) o = Some m ->
  r < length (final W call [] (ops ++ [o])) -> Reach (Bs (final W call [] (ops ++ [o]))) r m ->
  (forall req p n, snd (step W call (final W call [] (ops ++ [o])) (QLookup r req p (NStr n))) =
                   enc_res_value (res_of (uncached_lookup W (chain_regs (final W call [] (ops ++ [o])) r) req p n))) /\
  (forall req p, snd (step W call (final W call [] (ops ++ [o])) (QLookupAll r req p)) =
                 enc_pairs (uncached_lookupAll W (chain_regs (final W call [] (ops ++ [o])) r) req p)) /\
  (forall req p, snd (step W call (final W call [] (ops ++ [o])) (QSubscriptions r req p)) =
                 map vid (uncached_subscriptions W (chain_regs (final W call [] (ops ++ [o])) r) req p)).
Proof. exact mixed_answers_after_change_hist. Qed.
Print Assumptions C06_mixed_answers_after_change.

(* generations: in every reachable state no operation ever lowers the generation of any registry,
   and the registry an operation changes (__bases__ assigned, an effective registration /
   subscription change, rebuild()) gets a strictly larger one — what the equality test of the
   verifying flavour's generation snapshots relies on *)
Theorem C06_generations_strictly_increase : forall W call fl ops o, wf_hist fl 0 (ops ++ [o]) = true ->
  (forall i, generation (rs_reg (get (final W call [] ops) i)) <=
             generation (rs_reg (get (final W call [] (ops ++ [o])) i))) /\
  (forall m, bump_target W (final W call [] ops) o = Some m ->
             generation (rs_reg (get (final W call [] ops) m)) <
             generation (rs_reg (get (final W call [] (ops ++ [o])) m))).
Proof. exact generations_strictly_increase_hist. Qed.
Print Assumptions C06_generations_strictly_increase.

(* ------------------------------------------------------------------ the tie to the source text
   Gen/RegChainKernel.v is regenerated on every run from /repo/src/zope/interface/adapter.py by the
   fail-closed translator harness/translate/regchain.py (g_* = the translated methods, composed
   from the statement vocabulary of Model/RegPrim.v).  For ALL system states the generated
   functions are the functions of Model/RegSys.v the theorems above are about. *)

(* BaseAdapterRegistry._refresh_ro: the ``while True`` re-check loop exits in its first round *)
Theorem C06_generated_refresh_loop_exits_first_round : forall n s r,
  g_Base_refresh_ro_loop (S n) s r = Some (refresh_ro 0 s r).
Proof. exact base_refresh_loop_one_round. Qed.
Print Assumptions C06_generated_refresh_loop_exits_first_round.

(* registry._refresh_ro() incl. AdapterRegistry's recursion into the sub-registries *)
Theorem C06_generated_refresh_ro_eq_model : forall fuel s r, g_refresh_ro fuel s r = refresh_ro fuel s r.
Proof. exact refresh_ro_eq. Qed.
Print Assumptions C06_generated_refresh_ro_eq_model.

(* the lookup object's changed(): LookupBase / AdapterLookupBase / VerifyingBase /
   VerifyingAdapterLookup composed along the MRO of the registry's LookupClass *)
Theorem C06_generated_lookup_changed_eq_model : forall b s r, g_lookup_changed s r = lookup_changed b s r.
Proof. exact lookup_changed_eq. Qed.
Print Assumptions C06_generated_lookup_changed_eq_model.

(* registry.changed(): generation bump, lookup changed(), AdapterRegistry's fan-out *)
Theorem C06_generated_changed_eq_model : forall fuel s r, g_changed fuel s r = sub_changed fuel s r.
Proof. exact changed_eq. Qed.
Print Assumptions C06_generated_changed_eq_model.

Theorem C06_generated_changed_eq_after_bump : forall s r,
  g_changed (S (length s)) s r = after_bump (upd s r bump) r.
Proof. exact changed_eq_after_bump. Qed.
Print Assumptions C06_generated_changed_eq_after_bump.

(* registry.__bases__ = bases: both _setBases, the sub-registry bookkeeping loops included *)
Theorem C06_generated_setBases_eq_model : forall (s : sys) r bs,
  g_setBases (length s) (S (length s)) s r bs = set_bases s r bs.
Proof. exact setBases_eq. Qed.
Print Assumptions C06_generated_setBases_eq_model.

(* VerifyingBase._verify *)
Theorem C06_generated_verify_eq_model : forall s r, g_verify s r = verify s r.
Proof. exact verify_eq. Qed.
Print Assumptions C06_generated_verify_eq_model.

(* AdapterRegistry.__init__: a new registry has no sub-registries; rebuild() keeps them *)
Theorem C06_generated_init_eq_model : forall W call s r fl bs,
  new_reg s fl bs = set_bases (s ++ [mkRS empty_reg empty_caches [] [] (g_AR_init_subs None) [] [] fl]) (length s) bs /\
  fst (step W call s (ORebuild r)) =
  after_bump (set s r (mkRS (rebuild W (rs_reg (get s r))) (rs_caches (get s r)) (rs_bases (get s r))
                            (rs_ro (get s r)) (g_AR_init_subs (Some (rs_subs (get s r)))) (rs_vro (get s r))
                            (rs_vgen (get s r)) (rs_flavour (get s r)))) r.
Proof. exact init_eq. Qed.
Print Assumptions C06_generated_init_eq_model.

(* ------------------------------------------------------------------ the C accelerator
   Gen/VerifyC.v is regenerated on every run from _zope_interface_coptimizations.c by the fail-closed
   extractor harness/translate/verify_c.py (data level: which registries' generations are read, how they
   are compared, what is stored; [cst] = a system + whether the two C slots are NULL). *)

(* _generations_tuple(ro) reads the generation of every item of ro, in order *)
Theorem C06_generated_c_generations_eq_model : forall st l, gen_c_generations_tuple st l = gens (c_sys st) l.
Proof. exact c_generations_tuple_eq. Qed.
Print Assumptions C06_generated_c_generations_eq_model.

(* verify_changed (the C VerifyingBase.changed): caches dropped, the snapshot is exactly ro[1:], the
   generations are read over exactly that snapshot, both slots end filled — the Python kernel *)
Theorem C06_generated_c_changed_eq_model : forall st r,
  gen_c_verify_changed st r = mkCst (g_VerifyingBase_changed (c_sys st) r) false false.
Proof. exact c_verify_changed_eq. Qed.
Print Assumptions C06_generated_c_changed_eq_model.

(* with the accelerator, the verifying lookup object's changed() is the model's lookup_changed *)
Theorem C06_generated_c_lookup_changed_eq_model : forall b n1 n2 s r, rs_flavour (get s r) = Verifying ->
  g_AdapterLookupBase_changed (fun s r => c_sys (gen_c_verify_changed (mkCst s n1 n2) r))
                              (g_refresh_ro (length s) s r) r = lookup_changed b s r.
Proof. exact c_lookup_changed_eq. Qed.
Print Assumptions C06_generated_c_lookup_changed_eq_model.

(* _verify: element-wise comparison of the stored generations with those read over the stored
   _verify_ro, self.changed(None) on a mismatch (or on a NULL slot) = the model's verify *)
Theorem C06_generated_c_verify_eq_model : forall b s r, rs_flavour (get s r) = Verifying ->
  c_sys (gen_c_verify (fun st r => mkCst (lookup_changed b (c_sys st) r) false false) (mkCst s false false) r)
  = verify s r.
Proof. exact c_verify_eq_model. Qed.
Print Assumptions C06_generated_c_verify_eq_model.

Theorem C06_generated_c_verify_null_slot_calls_changed : forall chg st r,
  c_null_ro st = true \/ c_null_gens st = true -> gen_c_verify chg st r = chg st r.
Proof. exact c_verify_null. Qed.
Print Assumptions C06_generated_c_verify_null_slot_calls_changed.

(* ------------------------------------------------------------------ non-vacuity witnesses *)
(* world: spec 1 is an interface extending Interface (= spec 0) *)
Definition W0 : world := mkW (fun x => match x with 0 => [0] | _ => [x; 0] end) (fun _ => true).
Definition call0 : value -> list nat -> option nat := fun _ _ => None.

(* registries: 0 = top1, 1 = top2, 2 = mid(top1), 3 = bot(mid); top1 and top2 register different
   values for the same key; look up from bot; mid.__bases__ = (top2,); look up from bot again *)
Definition chain3 (fl : flavour) : list rop :=
  [ONewReg fl []; ONewReg fl []; ONewReg fl [0]; ONewReg fl [2];
   ORegister 0 [] 1 0 (Some (mkV 1 1)); ORegister 1 [] 1 0 (Some (mkV 2 2));
   QLookup 3 [] 1 (NStr 0);
   OSetRegBases 2 [1];
   QLookup 3 [] 1 (NStr 0)].

Example chain3_wf : wf_hist Push 0 (chain3 Push) = true /\ wf_hist Verifying 0 (chain3 Verifying) = true.
Proof. split; vm_compute; reflexivity. Qed.

(* both flavours: top1's value before the re-base, top2's value after it (the cache was warm) *)
Example chain3_push : run W0 call0 [] (chain3 Push) = [[]; []; []; []; []; []; [1; 1]; []; [1; 2]].
Proof. vm_compute. reflexivity. Qed.
Example chain3_verifying : run W0 call0 [] (chain3 Verifying) = [[]; []; []; []; []; []; [1; 1]; []; [1; 2]].
Proof. vm_compute. reflexivity. Qed.

(* the hypotheses of C06_answers_after_change are met by the re-base of mid, seen from bot *)
Example chain3_change : bump_target W0 (final W0 call0 [] (firstn 7 (chain3 Push))) (OSetRegBases 2 [1]) = Some 2
  /\ Reach (Bs (final W0 call0 [] (firstn 8 (chain3 Push)))) 3 2.
Proof. split; [vm_compute; reflexivity|]. eapply Reach_step; [|apply Reach_refl]. vm_compute. auto. Qed.

(* WITHOUT the fix (set_bases_old: only the re-based registry recomputes its order) the same
   history answers top1's value again and leaves bot's ``ro`` = [bot; mid; top1] although the
   current chain is [bot; mid; top2]: the theorems depend on the sub-registry refresh *)
Example chain3_push_without_fix :
  run_old W0 call0 [] (chain3 Push) = [[]; []; []; []; []; []; [1; 1]; []; [1; 1]] /\
  rs_ro (get (final_old W0 call0 [] (chain3 Push)) 3) = [3; 2; 0] /\
  fresh_ro (final_old W0 call0 [] (chain3 Push)) 3 = [3; 2; 1].
Proof. vm_compute. auto. Qed.

(* the history that still failed after the first fix (verifying flavour): a registration in bot
   itself between the re-base of mid and the lookup re-took bot's generation snapshot over its
   stale order; with VerifyingAdapterLookup.changed refreshing ``ro`` unconditionally the lookup
   finds top2's value *)
Definition masked : list rop :=
  [ONewReg Verifying []; ONewReg Verifying []; ONewReg Verifying [0]; ONewReg Verifying [2];
   ORegister 0 [] 1 0 (Some (mkV 1 1)); ORegister 1 [] 1 0 (Some (mkV 2 2));
   QLookup 3 [] 1 (NStr 0);
   OSetRegBases 2 [1];
   ORegister 3 [Some 1] 1 1 (Some (mkV 3 3));
   QLookup 3 [] 1 (NStr 0)].
Example masked_verifying : wf_hist Verifying 0 masked = true /\
  run W0 call0 [] masked = [[]; []; []; []; []; []; [1; 1]; []; []; [1; 2]].
Proof. split; vm_compute; reflexivity. Qed.

(* rebuild() in the middle of a chain: mid is rebuilt, then re-based; bot still follows *)
Definition chain3_rebuild (fl : flavour) : list rop :=
  [ONewReg fl []; ONewReg fl []; ONewReg fl [0]; ONewReg fl [2];
   ORegister 0 [] 1 0 (Some (mkV 1 1)); ORegister 1 [] 1 0 (Some (mkV 2 2));
   QLookup 3 [] 1 (NStr 0);
   ORebuild 2;
   OSetRegBases 2 [1];
   QLookup 3 [] 1 (NStr 0)].
Example chain3_rebuild_ok :
  wf_hist Push 0 (chain3_rebuild Push) = true /\ wf_hist Verifying 0 (chain3_rebuild Verifying) = true /\
  run W0 call0 [] (chain3_rebuild Push) = [[]; []; []; []; []; []; [1; 1]; []; []; [1; 2]] /\
  run W0 call0 [] (chain3_rebuild Verifying) = [[]; []; []; []; []; []; [1; 1]; []; []; [1; 2]].
Proof. repeat split; vm_compute; reflexivity. Qed.

(* a mixed chain: push tops 0 and 1, push mid 2(0), verifying 3(mid), verifying 4(3).  Re-basing the
   PUSH mid is seen from both verifying registries (nobody notifies them: generation of mid), and
   so is a later registration in the new push top *)
Definition mixed3 : list rop :=
  [ONewReg Push []; ONewReg Push []; ONewReg Push [0]; ONewReg Verifying [2]; ONewReg Verifying [3];
   ORegister 0 [] 1 0 (Some (mkV 1 1)); ORegister 1 [] 1 0 (Some (mkV 2 2));
   QLookup 4 [] 1 (NStr 0); QLookup 3 [] 1 (NStr 0);
   OSetRegBases 2 [1];
   QLookup 4 [] 1 (NStr 0);
   ORegister 1 [] 1 0 (Some (mkV 3 3));
   QLookup 4 [] 1 (NStr 0); QLookup 3 [] 1 (NStr 0)].
Example mixed3_ok : mwf_hist [] mixed3 = true /\
  run W0 call0 [] mixed3 = [[]; []; []; []; []; []; []; [1; 1]; [1; 1]; []; [1; 2]; []; [1; 3]; [1; 3]].
Proof. split; vm_compute; reflexivity. Qed.

(* a push registry over a verifying base is outside the quantifier: the real code raises
   AttributeError ('VerifyingAdapterRegistry' object has no attribute '_addSubregistry') both from
   AdapterRegistry((verifying,)) and from push.__bases__ = (verifying,) *)
Example push_over_verifying_excluded :
  mwf_hist [] [ONewReg Verifying []; ONewReg Push [0]] = false /\
  mwf_hist [] [ONewReg Verifying []; ONewReg Push []; OSetRegBases 1 [0]] = false.
Proof. split; vm_compute; reflexivity. Qed.
