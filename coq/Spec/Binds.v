(* Spec for C17 (verifyObject / verifyClass): signatures, call shapes, "binds", and what a
   conforming candidate is.  Nothing here mirrors verify.py's algorithm: [admits] is the
   property's wording, [binds] is inspect.Signature.bind restricted to positional / defaulted /
   *args / **kwargs parameters, and the executable versions enumerate call shapes by brute
   force.  Both are compared with inspect.signature(...).bind on every run (Tie/C17.v). *)
From Coq Require Import List Arith Bool Lia.
Import ListNotations.

(* A signature: [req] required positional parameters, [npos] positional parameters in all
   (required + defaulted), and whether there is a *args / a **kwargs parameter.
   Method.getSignatureInfo(): req = len(info['required']), npos = len(info['positional']),
   varargs / kwargs = "info['varargs'] / info['kwargs'] is a name, not None". *)
Record sig := mkSig { req : nat; npos : nat; varargs : bool; kwargs : bool }.

Definition wf (s : sig) : Prop := req s <= npos s.
Definition wfb (s : sig) : bool := Nat.leb (req s) (npos s).

(* A call shape: k positional arguments, and whether a keyword argument whose name is not the
   name of any parameter is passed as well. *)
Definition shape := (nat * bool)%type.

(* the call shapes a signature ADMITS (wording of the property): each positional arity from
   required to all positional parameters, surplus positionals if it has *args, arbitrary
   keywords if it has **kwargs *)
Definition admits (s : sig) (sh : shape) : Prop :=
  ((req s <= fst sh /\ fst sh <= npos s) \/ (npos s < fst sh /\ varargs s = true))
  /\ (snd sh = true -> kwargs s = true).

(* inspect.Signature.bind with k positional values (and extra=1 if the flag is set) succeeds: no required parameter is left
   unfilled, surplus positionals need *args, an unknown keyword needs **kwargs *)
Definition binds (s : sig) (sh : shape) : Prop :=
  req s <= fst sh /\ (fst sh <= npos s \/ varargs s = true) /\ (snd sh = true -> kwargs s = true).

Definition admitsb (s : sig) (sh : shape) : bool :=
  ((Nat.leb (req s) (fst sh) && Nat.leb (fst sh) (npos s)) || (Nat.ltb (npos s) (fst sh) && varargs s))
  && implb (snd sh) (kwargs s).

Definition bindsb (s : sig) (sh : shape) : bool :=
  Nat.leb (req s) (fst sh) && (Nat.leb (fst sh) (npos s) || varargs s) && implb (snd sh) (kwargs s).

(* Calling an attribute of the candidate.  [self_bound = true]: the callable is reached through
   an instance (bound method, or a function found on the class being verified), so the caller's
   k arguments arrive after the implicit first argument of the raw function. *)
Definition call_binds (self_bound : bool) (raw : sig) (sh : shape) : Prop :=
  if self_bound then binds raw (S (fst sh), snd sh) else binds raw sh.
Definition call_bindsb (self_bound : bool) (raw : sig) (sh : shape) : bool :=
  if self_bound then bindsb raw (S (fst sh), snd sh) else bindsb raw sh.

(* all shapes with at most n positionals *)
Definition shapes_upto (n : nat) : list shape :=
  flat_map (fun k => [(k, false); (k, true)]) (seq 0 (S n)).

(* one more than every positional parameter on either side: enough to see a missing *args *)
Definition shape_bound (i m : sig) : nat := S (Nat.max (npos i) (npos m)).

(* brute force: every admitted shape up to the bound binds (Proofs/Verify.v shows the bound
   loses nothing: C17_bounded_shapes_suffice) *)
Definition all_admitted_bindb (i : sig) (self_bound : bool) (raw : sig) : bool :=
  forallb (fun sh => implb (admitsb i sh) (call_bindsb self_bound raw sh))
          (shapes_upto (shape_bound i raw)).

(* ---- candidates ---- *)

Inductive vtype := VClass | VObject.           (* verifyClass / verifyObject *)

Inductive desc :=
| DAttr                                        (* zope.interface.Attribute *)
| DMethod (s : sig).                           (* zope.interface.interface.Method *)

(* what getattr(candidate, name) gives *)
Inductive attr_val :=
| VMissing                                     (* AttributeError *)
| VFunction (raw : sig)                        (* types.FunctionType; raw = the def's own parameters *)
| VMethod (raw : sig)                          (* bound method of a Python function (raw includes self) *)
| VBuiltin                                     (* method descriptor / builtin: no signature *)
| VProperty                                    (* a property object *)
| VCallable                                    (* any other callable: cannot be introspected *)
| VOther.                                      (* not callable *)

Definition elem := (nat * desc * attr_val)%type.   (* name (numbered), description, value *)

(* the implementations whose signature can be introspected, with the way they are called *)
Definition callee (vt : vtype) (cand_is_type : bool) (a : attr_val) : option (bool * sig) :=
  match a with
  | VFunction raw => Some (match vt with VClass => cand_is_type | VObject => false end, raw)
  | VMethod raw => Some (true, raw)
  | _ => None
  end.

(* failure classes: zope.interface.exceptions *)
Inductive fclass :=
| FDoesNotImplement
| FBrokenImplementation (name : nat)
| FBrokenMethod (name : nat).

Definition fclass_eqb (a b : fclass) : bool :=
  match a, b with
  | FDoesNotImplement, FDoesNotImplement => true
  | FBrokenImplementation n, FBrokenImplementation m => Nat.eqb n m
  | FBrokenMethod n, FBrokenMethod m => Nat.eqb n m
  | _, _ => false
  end.

(* what is wrong with one element, by the property's statement *)
Definition elem_failure (vt : vtype) (cand_is_type : bool) (e : elem) : option fclass :=
  let '(n, d, a) := e in
  match d with
  | DAttr =>
      match a, vt with
      | VMissing, VObject => Some (FBrokenImplementation n)
      | _, _ => None           (* a class may set plain attributes in __init__ *)
      end
  | DMethod i =>
      match a with
      | VMissing => Some (FBrokenImplementation n)
      | VOther => Some (FBrokenMethod n)
      | VProperty => match vt with VClass => None | VObject => Some (FBrokenMethod n) end
      | VBuiltin | VCallable => None
      | VFunction _ | VMethod _ =>
          match callee vt cand_is_type a with
          | Some (self_bound, raw) =>
              if all_admitted_bindb i self_bound raw then None else Some (FBrokenMethod n)
          | None => None
          end
      end
  end.

Fixpoint filter_map {A B} (f : A -> option B) (l : list A) : list B :=
  match l with
  | [] => []
  | x :: l' => match f x with Some y => y :: filter_map f l' | None => filter_map f l' end
  end.

(* every individual failure, in the order of the interface's names *)
Definition spec_failures (vt : vtype) (tentative declares cand_is_type : bool) (elems : list elem)
  : list fclass :=
  (if negb tentative && negb declares then [FDoesNotImplement] else [])
  ++ filter_map (elem_failure vt cand_is_type) elems.

(* the signatures met in a candidate are those of real Python functions, and a function reached
   through an instance has somewhere to put it: a first parameter or *args *)
Definition elem_wf (vt : vtype) (cand_is_type : bool) (e : elem) : Prop :=
  let '(_, d, a) := e in
  (forall s, d = DMethod s -> wf s) /\
  (forall self_bound raw, callee vt cand_is_type a = Some (self_bound, raw) ->
     wf raw /\ (self_bound = true -> 1 <= npos raw \/ varargs raw = true)).

Definition elem_wfb (vt : vtype) (cand_is_type : bool) (e : elem) : bool :=
  let '(_, d, a) := e in
  (match d with DMethod s => wfb s | DAttr => true end) &&
  (match callee vt cand_is_type a with
   | Some (self_bound, raw) => wfb raw && (negb self_bound || Nat.leb 1 (npos raw) || varargs raw)
   | None => true
   end).
