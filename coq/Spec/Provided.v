(* C01 specification: the abstract ledger of declarations.

   The ledger knows nothing of specifications objects, bases, caches or sharing.  It records,
   replaying the history,

     per class  c : its Python bases, [lc_asked] = every interface asked for by a class-level
                    declaration call since the last *only* form, [lc_kept] = those of them that
                    were not redundant when they were made, [lc_inherit] = no *only* form so far,
                    [lc_oasked] / [lc_okept] = the interfaces declared on the class OBJECT
                    (directlyProvides / provider / alsoProvides / noLongerProvides on the class) and
                    those of them not redundant when made — for a class object "implied by its
                    class" means implied by what its METACLASS implements, [lc_meta] (fixed);
     per object o : its class, and [lo_asked] / [lo_kept] likewise for the object-level calls.

   impl(c) = declared(c) ∪ (if inherit(c) then ⋃ impl(b), b a base of c): [impl_lo] with
   declared = kept, [impl_hi] with declared = asked.  "Redundant when made" means: already in the
   closure of impl_lo(c) at that moment  (an old-style ``__implemented__`` class attribute is a declaration
   like an *only* form made with the class: kept, and nothing is inherited) (what the class implies if every redundant declaration
   so far was dropped).  alsoProvides and noLongerProvides are, as documented, a directlyProvides
   of the object's current direct declarations plus / minus the argument: the moment of
   declaration of the whole net set is the moment of that call.

   Admissible answers for a target t are the sets A with
        closure (lo_direct t)  ⊆  A  ⊆  closure (hi_direct t)
   ("only a declaration redundant when made may be dropped"), and for a class with
        closure (impl_lo c)    ⊆  A  ⊆  closure (impl_hi c). *)
From Coq Require Import List Arith Bool.
Import ListNotations.
From ZI Require Import Lib.Util.
From ZI Require Export Model.DeclOps.

Record lcls := mkLC { lc_bases : list cls; lc_asked : list iface; lc_kept : list iface;
                      lc_inherit : bool; lc_oasked : list iface; lc_okept : list iface;
                      lc_meta : list iface; lc_builtin : bool }.
Record lobj := mkLO { lo_cls : cls; lo_live : bool; lo_asked : list iface; lo_kept : list iface }.
Record ledger := mkL { lcs : list lcls; los : list lobj }.

Definition linit : ledger := mkL [] [].

Fixpoint impl_f (sel : lcls -> list iface) (cs : list lcls) (fuel : nat) (c : cls) : list iface :=
  match fuel with
  | 0 => []
  | S f => match nth_error cs c with
           | None => []
           | Some r => sel r ++ (if lc_inherit r then flat_map (impl_f sel cs f) (lc_bases r) else [])
           end
  end.
Definition impl_lo (L : ledger) (c : cls) : list iface := impl_f lc_kept (lcs L) (S c) c.
Definition impl_hi (L : ledger) (c : cls) : list iface := impl_f lc_asked (lcs L) (S c) c.

(* the same, as a relation, without fuel: "x is declared on c or on a class c inherits from" *)
Inductive Impl (sel : lcls -> list iface) (cs : list lcls) : cls -> iface -> Prop :=
| Impl_own : forall c r x, nth_error cs c = Some r -> In x (sel r) -> Impl sel cs c x
| Impl_inh : forall c r b x, nth_error cs c = Some r -> lc_inherit r = true -> In b (lc_bases r) ->
                             Impl sel cs b x -> Impl sel cs c x.

(* bases are created before the class *)
Definition wf_lcs (cs : list lcls) : Prop :=
  forall c r b, nth_error cs c = Some r -> In b (lc_bases r) -> b < c.

(* not redundant at this moment *)
Definition fresh_now (g : igraph) (L : ledger) (c : cls) (l : list iface) : list iface :=
  keepnew (closure g (impl_lo L c)) l.
(* for a class-level declaration ``Interface`` itself counts while nothing is declared yet *)
Definition fresh_cls (g : igraph) (L : ledger) (c : cls) (kept l : list iface) : list iface :=
  celide (closure g (impl_lo L c)) kept l.

Definition lset_cls (L : ledger) (c : cls) (r : lcls) : ledger := mkL (upd (lcs L) c r) (los L).
Definition lset_obj (L : ledger) (o : obj) (r : lobj) : ledger := mkL (lcs L) (upd (los L) o r).

(* implementer / classImplements / classImplementsFirst: [lh] is asked for, of [l] what is not
   redundant is kept ([lh] / [l]: the most / the least a declaration-object argument may stand for) *)
Definition l_declare (g : igraph) (L : ledger) (c : cls) (lh l : list iface) : ledger :=
  match nth_error (lcs L) c with
  | None => L
  | Some r => lset_cls L c (mkLC (lc_bases r) (lc_asked r ++ lh) (lc_kept r ++ fresh_cls g L c (lc_kept r) l)
                                 (lc_inherit r) (lc_oasked r) (lc_okept r) (lc_meta r) (lc_builtin r))
  end.

(* implementer_only / classImplementsOnly: replaces everything, stops inheritance *)
Definition l_only (L : ledger) (c : cls) (lh l : list iface) : ledger :=
  match nth_error (lcs L) c with
  | None => L
  | Some r => lset_cls L c (mkLC (lc_bases r) lh l false (lc_oasked r) (lc_okept r) (lc_meta r) (lc_builtin r))
  end.

(* built-in types and their instances cannot take object-level declarations (the call raises) *)
Definition lclass_builtin (L : ledger) (c : cls) : bool :=
  match nth_error (lcs L) c with Some r => lc_builtin r | None => false end.

(* an object-level declaration of the net set: [asked] is asked for, [cand] is what may be kept *)
Definition l_object (g : igraph) (L : ledger) (t : target)
           (fa fk : list iface -> list iface) : ledger :=
  match t with
  | TInst o => match nth_error (los L) o with
               | Some r => if lo_live r && negb (lclass_builtin L (lo_cls r))
                           then lset_obj L o (mkLO (lo_cls r) true (fa (lo_asked r))
                                                   (fresh_now g L (lo_cls r) (fk (lo_kept r))))
                           else L
               | None => L
               end
  | TCls c => match nth_error (lcs L) c with
              | Some r => if lc_builtin r then L else
                          lset_cls L c (mkLC (lc_bases r) (lc_asked r) (lc_kept r) (lc_inherit r)
                                             (fa (lc_oasked r))
                                             (keepnew (closure g (lc_meta r)) (fk (lc_okept r)))
                                             (lc_meta r) (lc_builtin r))
              | None => L
              end
  end.

(* the directly named interfaces behind the two bounds *)
Definition lo_direct (L : ledger) (t : target) : list iface :=
  match t with
  | TInst o => match nth_error (los L) o with
               | Some r => lo_kept r ++ impl_lo L (lo_cls r)
               | None => []
               end
  | TCls c => match nth_error (lcs L) c with Some r => lc_okept r ++ lc_meta r | None => [] end
  end.
Definition hi_direct (L : ledger) (t : target) : list iface :=
  match t with
  | TInst o => match nth_error (los L) o with
               | Some r => lo_asked r ++ impl_hi L (lo_cls r)
               | None => []
               end
  | TCls c => match nth_error (lcs L) c with Some r => lc_oasked r ++ lc_meta r | None => [] end
  end.

(* what directlyProvidedBy may answer (as a set): between kept and asked *)
Definition lo_dpb (L : ledger) (t : target) : list iface :=
  match t with
  | TInst o => match nth_error (los L) o with Some r => lo_kept r | None => [] end
  | TCls c => match nth_error (lcs L) c with Some r => lc_okept r | None => [] end
  end.
Definition hi_dpb (L : ledger) (t : target) : list iface :=
  match t with
  | TInst o => match nth_error (los L) o with Some r => lo_asked r | None => [] end
  | TCls c => match nth_error (lcs L) c with Some r => lc_oasked r | None => [] end
  end.

(* what a declaration-object argument stands for: at least / at most *)
Definition narg_lo (L : ledger) (a : arg) : list iface :=
  match a with AI i => [i] | ADirectlyProvidedBy t => lo_dpb L t | AProvidedBy t => lo_direct L t end.
Definition narg_hi (L : ledger) (a : arg) : list iface :=
  match a with AI i => [i] | ADirectlyProvidedBy t => hi_dpb L t | AProvidedBy t => hi_direct L t end.
Definition nargs_lo (L : ledger) (l : list arg) : list iface := flat_map (narg_lo L) l.
Definition nargs_hi (L : ledger) (l : list arg) : list iface := flat_map (narg_hi L) l.

Definition lstep (g : igraph) (L : ledger) (o : op) : ledger :=
  match o with
  | NewClass bs m bi old =>
      let n := length (lcs L) in
      mkL (lcs L ++ [mkLC (dedup (filter (fun b => Nat.ltb b n) bs))
                          (match old with Some l => l | None => [] end)
                          (match old with Some l => l | None => [] end)
                          (match old with Some _ => false | None => true end) [] []
                          (match m with Some l => l | None => [] end) bi]) (los L)
  | NewInstance c =>
      if Nat.ltb c (length (lcs L)) then mkL (lcs L) (los L ++ [mkLO c true [] []]) else L
  | DropInstance o =>
      match nth_error (los L) o with
      | Some r => lset_obj L o (mkLO (lo_cls r) false (lo_asked r) (lo_kept r))
      | None => L
      end
  | Implementer c l => l_declare g L c (nargs_hi L l) (nargs_lo L l)
  | ClassImplements c l => l_declare g L c (nargs_hi L l) (nargs_lo L l)
  | ClassImplementsFirst c x => l_declare g L c [x] [x]
  | ImplementerOnly c l => l_only L c (nargs_hi L l) (nargs_lo L l)
  | ClassImplementsOnly c l => l_only L c (nargs_hi L l) (nargs_lo L l)
  | DirectlyProvides t l => l_object g L t (fun _ => nargs_hi L l) (fun _ => nargs_lo L l)
  | Provider t l => l_object g L t (fun _ => nargs_hi L l) (fun _ => nargs_lo L l)
  | AlsoProvides t l => l_object g L t (fun a => a ++ nargs_hi L l) (fun k => k ++ nargs_lo L l)
  | NoLongerProvides t x =>
      let rm := filter (fun i => negb (ext g i x)) in
      l_object g L t rm rm
  end.

Definition lrun (g : igraph) (ops : list op) : ledger := fold_left (lstep g) ops linit.

Definition lo_provided (g : igraph) (L : ledger) (t : target) := closure g (lo_direct L t).
Definition hi_provided (g : igraph) (L : ledger) (t : target) := closure g (hi_direct L t).
Definition lo_implemented (g : igraph) (L : ledger) (c : cls) := closure g (impl_lo L c).
Definition hi_implemented (g : igraph) (L : ledger) (c : cls) := closure g (impl_hi L c).

(* the sandwich *)
Definition admissible (lo hi a : list iface) : Prop := incl lo a /\ incl a hi.

