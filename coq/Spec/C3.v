(* Specification layer for property C03: the textbook C3 linearization (the algorithm of
   "The Python 2.3 Method Resolution Order": L[C] = C + merge(L[B1] … L[Bn], [B1 … Bn]),
   a head is eligible when it occurs in NO tail, the chosen head is removed from HEADS only),
   reachability, and what it means to be a valid linearization.

   Independent of Model/Ro.v: hierarchies are given as a function [B : nat -> list nat]
   from a node to its ordered base list. *)
From Coq Require Import List Arith Bool.
Import ListNotations.

(* ---- textbook merge *)
Definition in_tail (c : nat) (s : list nat) : bool :=
  match s with [] => false | _ :: t => existsb (Nat.eqb c) t end.

(* candidate [c] is good when it is in no tail *)
Definition good (c : nat) (seqs : list (list nat)) : bool :=
  forallb (fun s => negb (in_tail c s)) seqs.

(* the first sequence head that is good *)
Fixpoint pick_from (cands seqs : list (list nat)) : option nat :=
  match cands with
  | [] => None
  | [] :: r => pick_from r seqs
  | (h :: _) :: r => if good h seqs then Some h else pick_from r seqs
  end.

Definition pick (seqs : list (list nat)) : option nat := pick_from seqs seqs.

(* remove [c] where it is the head *)
Definition pop (c : nat) (s : list nat) : list nat :=
  match s with [] => [] | h :: t => if Nat.eqb h c then t else s end.

Definition is_nil (s : list nat) : bool := match s with [] => true | _ => false end.

Definition size (seqs : list (list nat)) : nat := fold_right (fun s n => length s + n) 0 seqs.

Fixpoint merge_f (fuel : nat) (seqs : list (list nat)) : option (list nat) :=
  match fuel with
  | 0 => None
  | S f =>
      if forallb is_nil seqs then Some []
      else match pick seqs with
           | None => None                       (* inconsistent: no eligible head *)
           | Some c => option_map (cons c) (merge_f f (map (pop c) seqs))
           end
  end.

(* [S (size seqs)] steps are always enough (Proofs/Ro.v: merge_f_fuel) *)
Definition merge (seqs : list (list nat)) : option (list nat) := merge_f (S (size seqs)) seqs.

(* the same merge as a relation, with no fuel *)
Inductive Merge : list (list nat) -> list nat -> Prop :=
| Merge_done : forall seqs, forallb is_nil seqs = true -> Merge seqs []
| Merge_step : forall seqs c l,
    forallb is_nil seqs = false -> pick seqs = Some c ->
    Merge (map (pop c) seqs) l -> Merge seqs (c :: l).

(* ---- C3 linearization of node [x] in hierarchy [B]; [None] = no linearization
   (fuel: anything above the rank of [x]; Proofs/Ro.v: c3_lin_fuel) *)
Fixpoint all_some {A} (l : list (option A)) : option (list A) :=
  match l with
  | [] => Some []
  | None :: _ => None
  | Some a :: r => match all_some r with Some r' => Some (a :: r') | None => None end
  end.

Fixpoint c3_lin (B : nat -> list nat) (fuel : nat) (x : nat) : option (list nat) :=
  match fuel with
  | 0 => None
  | S f =>
      match all_some (map (c3_lin B f) (B x)) with
      | None => None
      | Some ls => option_map (cons x) (merge (ls ++ [B x]))
      end
  end.

(* ---- the hierarchy in which everything (but the root itself) that has no base gets the
   root as its only base: zope.interface treats Interface as implied by every specification *)
Definition rooted (root : nat) (B : nat -> list nat) : nat -> list nat :=
  fun x => if Nat.eqb x root then []
           else match B x with [] => [root] | bs => bs end.

(* ---- valid linearizations *)
Inductive Reach (B : nat -> list nat) : nat -> nat -> Prop :=
| Reach_refl : forall x, Reach B x x
| Reach_step : forall x b y, In b (B x) -> Reach B b y -> Reach B x y.

(* [a] occurs strictly before [b] *)
Definition Before (l : list nat) (a b : nat) : Prop :=
  exists l1 l2 l3, l = l1 ++ a :: l2 ++ b :: l3.

Inductive Subseq : list nat -> list nat -> Prop :=
| Subseq_nil : forall l, Subseq [] l
| Subseq_cons : forall x s l, Subseq s l -> Subseq (x :: s) (x :: l)
| Subseq_skip : forall x s l, Subseq s l -> Subseq s (x :: l).

(* [l] starts with [x], has no duplicates, lists exactly [x] and its ancestors, and puts every
   element before each of its bases *)
Definition Lin (B : nat -> list nat) (x : nat) (l : list nat) : Prop :=
  (exists t, l = x :: t) /\
  NoDup l /\
  (forall y, In y l <-> Reach B x y) /\
  (forall y b, In y l -> In b (B y) -> Before l y b).

Definition ValidLin (B : nat -> list nat) (root x : nat) (l : list nat) : Prop :=
  Lin B x l /\ exists l', l = l' ++ [root].

(* acyclicity, witnessed by a rank; base lists have no repeated entry *)
Definition wf (rk : nat -> nat) (B : nat -> list nat) : Prop :=
  forall x, NoDup (B x) /\ forall b, In b (B x) -> rk b < rk x.

(* ---- executable reading of ValidLin, used by the Tie oracle (computed from scratch:
   reachability by exhaustive search with fuel, positions by index) *)
Fixpoint reach_list (B : nat -> list nat) (fuel : nat) (x : nat) : list nat :=
  match fuel with
  | 0 => [x]
  | S f => x :: flat_map (reach_list B f) (B x)
  end.

Definition memb (x : nat) (l : list nat) : bool := existsb (Nat.eqb x) l.

Fixpoint nodupb (l : list nat) : bool :=
  match l with [] => true | x :: t => negb (memb x t) && nodupb t end.

Fixpoint index_of (x : nat) (l : list nat) : option nat :=
  match l with
  | [] => None
  | y :: t => if Nat.eqb x y then Some 0 else option_map S (index_of x t)
  end.

Definition beforeb (l : list nat) (a b : nat) : bool :=
  match index_of a l, index_of b l with
  | Some i, Some j => Nat.ltb i j
  | _, _ => false
  end.

Definition linb (B : nat -> list nat) (fuel : nat) (x : nat) (l : list nat) : bool :=
  match l with
  | [] => false
  | h :: _ =>
      Nat.eqb h x && nodupb l
      && (let r := reach_list B fuel x in
          forallb (fun y => memb y r) l && forallb (fun y => memb y l) r)
      && forallb (fun y => forallb (fun b => beforeb l y b) (B y)) l
  end.

Definition valid_linb (B : nat -> list nat) (fuel : nat) (root x : nat) (l : list nat) : bool :=
  linb B fuel x l && match rev l with z :: _ => Nat.eqb z root | [] => false end.
