(* C20 abstract vocabulary: what the property statement talks about, without resolution
   orders, caches or accumulators. *)
From Coq Require Import List Arith Bool.
Import ListNotations.
From ZI Require Import Model.Ro Model.DeclAlg.

(* [l] is split into [f] and [k], both keeping the order of [l] *)
Inductive interleave : list node -> list node -> list node -> Prop :=
| il_nil : interleave [] [] []
| il_l x l f k : interleave l f k -> interleave (x :: l) (x :: f) k
| il_r x l f k : interleave l f k -> interleave (x :: l) f (x :: k).

Section Spec.
  Variable g : graph.
  Variable ifs : list node.

  (* reflexive-transitive closure of "b is listed in x.__bases__" *)
  Inductive reach : node -> node -> Prop :=
  | reach_refl x : reach x x
  | reach_step x b y : In b (bases g x) -> reach b y -> reach x y.

  (* x is, or extends, y.  Every specification implies Interface (the root): _calculate_sro
     appends it even when no chain of bases leads to it. *)
  Definition implies (x y : node) : Prop := y = root \/ reach x y.
  Definition extends (x y : node) : Prop := x <> y /\ implies x y.

  (* the interfaces a specification contributes: walk down through class specifications and
     stop at the first interface of every path; depth first, left to right, WITH repeats.
     For a class specification, whose bases are its declared interfaces followed by the
     specifications of its base classes, this is "declared, then inherited". *)
  Fixpoint leaves_f (fuel : nat) (x : node) : list node :=
    if is_iface ifs x then [x]
    else match fuel with 0 => [] | S f => flat_map (leaves_f f) (bases g x) end.
  Definition leaves (x : node) : list node := leaves_f (S x) x.

  (* left-to-right flattening of an argument tree *)
  Fixpoint tree_leaves (t : tree) : list node :=
    match t with
    | Leaf x => leaves x
    | Seq ts => flat_map tree_leaves ts
    | OfDecl d => flat_map leaves d
    end.

  (* the same walk as a relation (no fuel): i is the first interface on a path from x *)
  Inductive first_iface : node -> node -> Prop :=
  | fi_here x : is_iface ifs x = true -> first_iface x x
  | fi_step x b i : is_iface ifs x = false -> In b (bases g x) -> first_iface b i -> first_iface x i.

  (* Well-formed world (decidable; generated worlds satisfy it by construction):
     every node's bases carry smaller numbers (creation order: the graph is acyclic and
     Interface = 0 has no bases), and every interface is a node of the graph. *)
  Definition wf : bool :=
    forallb (fun p => forallb (fun b => Nat.ltb b (fst p)) (snd p)) g
    && forallb (fun i => mem i (map fst g)) ifs.
End Spec.
