(* C09 — the abstract ledger: what a registry's bookkeeping must report after a history.

   The ledger is a finite map given as a function (keys never mentioned map to None / []):
     adapters        key (required, provided, name) -> the last value registered for exactly that key
                     and not since unregistered.  Registering None unregisters; unregister with a
                     value removes the entry only if the stored value IS that object (v_is).
     subscriptions   key (required, provided-or-None) -> the live subscribers in subscription order;
                     unsubscribe with a value removes every entry EQUAL (==) to it, without a value all.
   rebuild() does not change the ledger.  A ``None`` in ``required`` stands for Interface.
   Nothing here mentions the registry's algorithms (Model/Adapter.v supplies only the vocabulary:
   spec, value, keys and their boolean equalities, world, iro). *)
From Coq Require Import List Arith Bool.
Import ListNotations.
From ZI Require Import Model.Ro Model.Adapter Model.Bookkeeping.

Definition amap := akey -> option value.
Definition smap := skey -> list value.

Definition akey_of (req : list (option spec)) (p : spec) (n : name) : akey := (map conv req, p, n).
Definition skey_of (req : list (option spec)) (p : option spec) : skey := (map conv req, p).

Definition aupd (m : amap) (k : akey) (v : option value) : amap :=
  fun k' => if akey_eqb k' k then v else m k'.
Definition supd (m : smap) (k : skey) (l : list value) : smap :=
  fun k' => if skey_eqb k' k then l else m k'.

Definition aled_step (m : amap) (o : bop) : amap :=
  match o with
  | BRegister req p n v => aupd m (akey_of req p n) v                 (* v = None: removal *)
  | BUnregister req p n None => aupd m (akey_of req p n) None
  | BUnregister req p n (Some v) =>
      match m (akey_of req p n) with
      | Some old => if v_is old v then aupd m (akey_of req p n) None else m
      | None => m
      end
  | _ => m
  end.

Definition sled_step (m : smap) (o : bop) : smap :=
  match o with
  | BSubscribe req p v => supd m (skey_of req p) (m (skey_of req p) ++ [v])
  | BUnsubscribe req p None => supd m (skey_of req p) []
  | BUnsubscribe req p (Some v) =>
      supd m (skey_of req p) (filter (fun x => negb (v_eq x v)) (m (skey_of req p)))
  | _ => m
  end.

Definition aledger (ops : list bop) : amap := fold_left aled_step ops (fun _ => None).
Definition sledger (ops : list bop) : smap := fold_left sled_step ops (fun _ => []).

(* does the operation write the adapter key k / the subscription key k ? *)
Definition touches_a (k : akey) (o : bop) : bool :=
  match o with
  | BRegister req p n _ | BUnregister req p n _ => akey_eqb k (akey_of req p n)
  | _ => false
  end.

(* the values a history mentions (registered ones are enough for the adapter ledger) *)
Definition avalues (ops : list bop) : list value :=
  flat_map (fun o => match o with
                     | BRegister _ _ _ (Some v) => [v]
                     | BUnregister _ _ _ (Some v) => [v]
                     | _ => [] end) ops.

(* identity determines the object: two mentioned values with the same identity are the same
   value (true of real objects; needed because the model pairs an identity with an equality class) *)
Definition identity_ok (vals : list value) : Prop :=
  forall a b, In a vals -> In b vals -> vid a = vid b -> a = b.

(* ---- unambiguous lookups.
   A lookup for (required, p, name) walks the required-key tuples [prefix] drawn from the
   resolution orders of the required specifications and, under each, the registered provided
   interfaces that extend p (the "extendors" of p, kept in a list whose order among UNRELATED
   interfaces depends on the order of registration, hence on the enumeration order of a replay).
   The lookup is unambiguous when under every such tuple at most one applicable provided interface
   carries an entry: then the answer cannot depend on that order. *)
Definition prefix_ok (W : world) (prefix required : list spec) : Prop :=
  Forall2 (fun x s => In x (w_sro W s)) prefix required.

Definition unamb_lookup (W : world) (m : amap) (required : list spec) (p : spec) (n : name) : Prop :=
  forall prefix e1 e2, prefix_ok W prefix required ->
    In p (iro W e1) -> In p (iro W e2) ->
    m (prefix, e1, n) <> None -> m (prefix, e2, n) <> None -> e1 = e2.

Definition unamb_subs (W : world) (m : smap) (required : list spec) (p : spec) : Prop :=
  forall prefix e1 e2, prefix_ok W prefix required ->
    In p (iro W e1) -> In p (iro W e2) ->
    m (prefix, Some e1) <> [] -> m (prefix, Some e2) <> [] -> e1 = e2.

(* executable versions over a list that contains every live key (used by the Tie) *)
Fixpoint prefix_okb (W : world) (prefix required : list spec) : bool :=
  match prefix, required with
  | [], [] => true
  | x :: pr, s :: rq => mem x (w_sro W s) && prefix_okb W pr rq
  | _, _ => false
  end.

Definition pairwise {A} (f : A -> A -> bool) (l : list A) : bool :=
  forallb (fun a => forallb (fun b => f a b) l) l.

Definition unamb_lookup_b (W : world) (live : list akey) (required : list spec) (p : spec) (n : name) : bool :=
  let app := filter (fun k => let '(r, e, n') := k in
                              Nat.eqb n' n && prefix_okb W r required && mem p (iro W e)) live in
  pairwise (fun k1 k2 => let '(r1, e1, _) := k1 in let '(r2, e2, _) := k2 in
                         negb (lspec_eqb r1 r2) || Nat.eqb e1 e2) app.

Definition unamb_subs_b (W : world) (live : list skey) (required : list spec) (p : spec) : bool :=
  let app := filter (fun k => match snd k with
                              | Some e => prefix_okb W (fst k) required && mem p (iro W e)
                              | None => false end) live in
  pairwise (fun k1 k2 => negb (lspec_eqb (fst k1) (fst k2)) || ospec_eqb (snd k1) (snd k2)) app.
