(* Specification layer for property C19: the relations the theorems of Properties/C19.v are
   phrased with.  Short enough to read in a minute; no algorithm of Model/Super.v is used
   (only its data: the class graph, the declarations table). *)
From Coq Require Import List Arith Bool.
Import ListNotations.
From ZI Require Import Model.Ro Model.Super.

(* [c'] contributes to what class [c] implements: [c] itself, or - as long as the classes on the
   way still inherit (no *only* declaration) - a class reached through __bases__ *)
Inductive Contributes (E : env) (d : decls) : cls -> cls -> Prop :=
| Contributes_self : forall c, Contributes E d c c
| Contributes_base : forall c b c',
    inherit d c = true -> In b (bases (e_cg E) c) -> Contributes E d b c' -> Contributes E d c c'
(* ... or a class whose specification [c] declared (classImplements(c, implementedBy(b))), whether or
   not [c] still inherits *)
| Contributes_spec : forall c b c',
    In b (dspecs d c) -> Contributes E d b c' -> Contributes E d c c'.

(* the specification of class [x] hears about a change of the specification of class [c]:
   [x] is [c], or [x] hears about a class [y] that lists [c] in __bases__ and still inherits *)
Inductive Hears (E : env) (d : decls) : cls -> cls -> Prop :=
| Hears_self : forall c, Hears E d c c
| Hears_sub : forall x y c,
    In y (map fst (e_cg E)) -> inherit d y = true -> In c (bases (e_cg E) y) ->
    Hears E d x y -> Hears E d x c
(* ... or that declared the specification of [c] itself *)
| Hears_decl : forall x y c,
    In y (map fst (e_cg E)) -> In c (dspecs d y) -> Hears E d x y -> Hears E d x c.

(* declared class specifications point to classes created earlier (no cycle) inside the world *)
Definition specs_ok (E : env) (d : decls) : Prop :=
  forall c b, In b (dspecs d c) -> b < c /\ c < length (e_cg E).

(* the classes strictly after the first occurrence of [C] *)
Fixpoint rest_after (C : cls) (l : list cls) : list cls :=
  match l with
  | [] => []
  | x :: t => if Nat.eqb x C then t else rest_after C t
  end.
