(* Spec for property C04: "adapter lookup returns the most specific applicable registration".

   The specification is FLAT: it talks about the set of live registrations of each registry
   (the finite map  (required, provided, name) -> value  that [adapters] is), the extension
   relation of the world, and positions in resolution orders.  It does not mention the nested
   walk, the extendors lists or any cache.

   Reading guide (one minute):
     live r req p n v        registry r currently maps (req, p, n) to v
     applicable W req p n looked asked name
                             same name, same arity, every looked-up spec is-or-extends the
                             registered required spec at its position, and the registered
                             provided interface is-or-extends the asked one
     rank W looked i req     the tuple (index of the registry in ro,
                                        index of req_1 in sro(looked_1), ...,
                                        index of req_n in sro(looked_n))
     preferred               w is preferred to c when rank w < rank c lexicographically, or the
                             ranks are equal (same registry, identical required keys) and w's
                             provided interface is not a STRICT extension of c's.
   "Provided most general" for UNRELATED provided interfaces: the property text does not order
   them (the code takes the extendors list order = registration order subject to
   "generalisations first"); the Spec therefore only demands that the winner's provided
   interface is not a strict extension of another applicable provided interface registered in
   the same registry under identical required keys. *)
From Coq Require Import List Arith Bool.
Import ListNotations.
From ZI Require Import Model.Ro Model.Adapter.

(* ---- well-formed worlds (what every real specification graph satisfies) *)
Definition sro_refl (W : world) : Prop := forall x, In x (w_sro W x).
Definition sro_nodup (W : world) : Prop := forall x, NoDup (w_sro W x).
(* closure: the resolution order of x contains the resolution orders of its members, i.e.
   isOrExtends is transitive *)
Definition sro_closed (W : world) : Prop :=
  forall x y, In y (w_sro W x) -> incl (w_sro W y) (w_sro W x).
Definition wf_world (W : world) : Prop := sro_refl W /\ sro_nodup W /\ sro_closed W.
(* Interface (spec 0) ends every resolution order *)
Definition root_everywhere (W : world) : Prop := forall x, In root (w_sro W x).

(* ---- the flat view of a registry *)
Definition live (r : reg) (req : list spec) (p : spec) (n : name) (v : value) : Prop :=
  aget akey_eqb (adapters r) (req, p, n) = Some v.

Definition applicable (W : world) (req : list spec) (p : spec) (n : name)
           (looked : list spec) (asked : spec) (nm : name) : Prop :=
  n = nm /\
  Forall2 (fun l r => isOrExtends W l r = true) looked req /\
  isOrExtends W p asked = true.

(* ---- the preference order *)
Fixpoint index_of (x : spec) (l : list spec) : nat :=
  match l with
  | [] => 0
  | y :: l' => if Nat.eqb x y then 0 else S (index_of x l')
  end.

Fixpoint positions (W : world) (looked req : list spec) : list nat :=
  match looked, req with
  | l :: ls, r :: rs => index_of r (w_sro W l) :: positions W ls rs
  | _, _ => []
  end.

Definition rank (W : world) (looked : list spec) (i : nat) (req : list spec) : list nat :=
  i :: positions W looked req.

Fixpoint lex_lt (a b : list nat) : Prop :=
  match a, b with
  | x :: a', y :: b' => x < y \/ (x = y /\ lex_lt a' b')
  | _, _ => False
  end.

(* p is a strict extension of q *)
Definition strict_ext (W : world) (p q : spec) : Prop :=
  isOrExtends W p q = true /\ isOrExtends W q p = false.

(* candidate = (index of its registry in ro, required keys, provided interface) *)
Definition preferred (W : world) (looked : list spec)
           (iw : nat) (reqw : list spec) (pw : spec)
           (ic : nat) (reqc : list spec) (pc : spec) : Prop :=
  lex_lt (rank W looked iw reqw) (rank W looked ic reqc)
  \/ (iw = ic /\ reqw = reqc /\ ~ strict_ext W pw pc).

(* ---- the extendors invariant ("per requested interface, the registered provided interfaces
   that extend it, most general first") *)
(* in the list, nothing that comes after p is a strict generalisation of p *)
Fixpoint gen_first (W : world) (l : list spec) : Prop :=
  match l with
  | [] => True
  | p :: l' => (forall q, In q l' -> ~ strict_ext W p q) /\ gen_first W l'
  end.

(* number of live adapter registrations / subscriptions whose provided interface is p *)
Definition akey_provided (k : akey) : spec := snd (fst k).
Definition n_adapters (r : reg) (p : spec) : nat :=
  length (filter (fun kv => Nat.eqb (akey_provided (fst kv)) p) (adapters r)).
Definition n_subscriptions (r : reg) (p : spec) : nat :=
  fold_right (fun kv acc => (if ospec_eqb (snd (fst kv)) (Some p) then length (snd kv) else 0) + acc)
             0 (subscribers r).

Definition ext_inv (W : world) (r : reg) : Prop :=
  (* extendors[i] holds exactly the provided interfaces with positive count that extend i *)
  (forall i p, In p (ext_get (extendors r) i) <->
               (0 < cnt_get (provided_cnt r) p /\ In i (iro W p))) /\
  (forall i, NoDup (ext_get (extendors r) i)) /\
  (* each after all of its generalisations present in the list *)
  (forall i, gen_first W (ext_get (extendors r) i)) /\
  (* the count never falls below the number of live uses (it may drift above on overwrite) *)
  (forall p, n_adapters r p + n_subscriptions r p <= cnt_get (provided_cnt r) p) /\
  (* hence every provided interface with a live registration has a positive count *)
  (forall req p n v, live r req p n v -> 0 < cnt_get (provided_cnt r) p).

(* ---- histories of one registry *)
Inductive regop :=
| RRegister (req : list (option spec)) (p : spec) (n : name) (v : option value)
| RUnregister (req : list (option spec)) (p : spec) (n : name) (v : option value)
| RSubscribe (req : list (option spec)) (p : option spec) (v : value)
| RUnsubscribe (req : list (option spec)) (p : option spec) (v : option value)
| RRebuild.

Definition reg_step (W : world) (r : reg) (o : regop) : reg :=
  match o with
  | RRegister req p n v => register W r req p n v
  | RUnregister req p n v => unregister W r req p n v
  | RSubscribe req p v => subscribe W r req p v
  | RUnsubscribe req p v => unsubscribe W r req p v
  | RRebuild => rebuild W r
  end.
