(* Spec for C18: what a Python signature is, what getSignatureInfo / getSignatureString must
   report for it (the property statement), and CPython's code-object layout for it.

   [layout] is an ASSUMPTION about CPython (compile.c / funcobject.c), not something proved: it
   is validated on every run by Tie/C18.v check_spec, which compares it field by field with
   the real ``f.__code__`` / ``f.__defaults__`` of every generated ``def``. *)
From Coq Require Import List Bool Arith.
Import ListNotations.
From ZI Require Import Model.PyFunc.

Definition param := (name * option dflt)%type.

(* def f(posonly.., /, pos.., *vararg, kwonly.., **varkw) *)
Record signature := mkSig {
  posonly : list param;
  pos : list param;
  vararg : option name;
  kwonly : list param;
  varkw : option name
}.

Definition positionals (s : signature) : list param := posonly s ++ pos s.
Definition olist {A} (o : option A) : list A := match o with Some a => [a] | None => [] end.
Definition has_default (p : param) : bool := match snd p with Some _ => true | None => false end.

Definition param_names (s : signature) : list name :=
  map fst (positionals s) ++ map fst (kwonly s) ++ olist (vararg s) ++ olist (varkw s).

(* Python's rule "non-default argument follows default argument" for the positional
   parameters: once one has a default all later ones have *)
Fixpoint dflt_suffix (l : list param) : bool :=
  match l with
  | [] => true
  | p :: t => if has_default p then forallb has_default t else dflt_suffix t
  end.

(* ... and "duplicate argument in function definition" *)
Definition valid (s : signature) : Prop :=
  dflt_suffix (positionals s) = true /\ NoDup (param_names s).

Definition defaults_of (l : list param) : list dflt :=
  flat_map (fun p => olist (snd p)) l.
Definition optional_of (l : list param) : list (name * dflt) :=
  flat_map (fun p => match snd p with Some d => [(fst p, d)] | None => [] end) l.
Definition required_of (l : list param) : list name :=
  map fst (filter (fun p => negb (has_default p)) l).

(* CPython's layout of the function object for [s] with local variables [locals] and function
   attributes [fd]; [iml] is the imlevel argument handed to fromFunction *)
Definition layout (s : signature) (locals : list name) (fd : list (name * dflt)) (iml : nat) : code :=
  mkCode (length (posonly s) + length (pos s))
         (length (kwonly s))
         (param_names s ++ locals)
         (match vararg s with Some _ => true | None => false end)
         (match varkw s with Some _ => true | None => false end)
         (defaults_of (positionals s))
         iml
         fd.

(* ---- what the property statement asks of the description of [s] seen through [iml] bound
   leading arguments (a bound method: iml = 1): the positional parameters that remain *)
Definition visible (s : signature) (iml : nat) : list param := skipn iml (positionals s).

Definition spec_info (s : signature) (iml : nat) (fd : list (name * dflt)) : method :=
  mkMethod (map fst (visible s iml))
           (required_of (visible s iml))
           (optional_of (visible s iml))
           (vararg s)
           (varkw s)
           fd.

(* the rendering of the real signature: "name", "name=default", "*args", "**kw" *)
Definition render (s : signature) (iml : nat) : list tok :=
  map (fun p => match snd p with Some d => TNameDefault (fst p) d | None => TName (fst p) end)
      (visible s iml)
  ++ ostar (vararg s) ++ ostarstar (varkw s).
