(* Abstract vocabulary of property C02: reachability over the CURRENT __bases__ relation.
   [bases g x] (Model/Ro.v) is the ordered base list of specification [x] in graph [g]. *)
From Coq Require Import List.
Import ListNotations.
From ZI Require Import Model.Ro.

(* [reach g x t]: t is reachable from x in one or more __bases__ steps *)
Inductive reach (g : graph) : node -> node -> Prop :=
| reach_base x b : In b (bases g x) -> reach g x b
| reach_step x b t : In b (bases g x) -> reach g b t -> reach g x t.

(* a rank: every base sits strictly lower.  A graph is acyclic when it has one. *)
Definition ranked (g : graph) (r : node -> nat) : Prop :=
  forall x b, In b (bases g x) -> r b < r x.
Definition acyclic (g : graph) : Prop := exists r, ranked g r.
