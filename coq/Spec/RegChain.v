(* Specification vocabulary for property C06 (registries consult exactly their current base
   chain): reachability through __bases__, the well-formed histories the theorems quantify
   over, and the "current chain" of a registry.  Definitions only. *)
From Coq Require Import List Arith Bool.
Import ListNotations.
From ZI Require Import Model.Ro Model.Adapter Model.Lookup Model.RegSys.

(* [Reach B x y]: y is x or one of its (transitive) bases in the hierarchy B *)
Inductive Reach (B : nat -> list nat) : nat -> nat -> Prop :=
| Reach_refl : forall x, Reach B x x
| Reach_step : forall x b y, In b (B x) -> Reach B b y -> Reach B x y.

(* the current __bases__ of every registry of a system *)
Definition Bs (s : sys) : nat -> list nat := fun x => rs_bases (get s x).

Definition flavour_eqb (a b : flavour) : bool :=
  match a, b with Push, Push => true | Verifying, Verifying => true | _, _ => false end.

(* Well-formed operations of a history over [n] existing registries of the single flavour [fl]:
   - a new registry (it gets number n) has existing registries as bases;
   - __bases__ of r is assigned registries with a smaller number (so the registry graph stays
     acyclic: the real code recurses forever on a cycle; the generator creates registries in
     topological order and only re-bases onto earlier ones);
   - every other operation addresses an existing registry;
   - rebuild() addresses an existing registry like every other operation (since
     AdapterRegistry.__init__ keeps an existing _v_subregistries, the registries based on the
     rebuilt one still hear from it). *)
Definition wf_op (fl : flavour) (n : nat) (o : rop) : bool :=
  match o with
  | ONewReg f bs => flavour_eqb f fl && forallb (fun b => Nat.ltb b n) bs
  | OSetRegBases r bs => Nat.ltb r n && forallb (fun b => Nat.ltb b r) bs
  | ORebuild r
  | ORegister r _ _ _ _ | OUnregister r _ _ _ _ | OSubscribe r _ _ _ | OUnsubscribe r _ _ _
  | QLookup r _ _ _ | QLookup1 r _ _ _ | QLookupAll r _ _ | QNames r _ _ | QSubscriptions r _ _
  | QRegistered r _ _ _ | QSubscribed r _ _ _ | QAllRegistrations r | QAllSubscriptions r
  | QQueryAdapter r _ _ _ | QAdapterHook r _ _ _ | QQueryMultiAdapter r _ _ _ | QSubscribers r _ _ =>
      Nat.ltb r n
  end.

Definition n_after (n : nat) (o : rop) : nat := match o with ONewReg _ _ => S n | _ => n end.

Fixpoint wf_hist (fl : flavour) (n : nat) (ops : list rop) : bool :=
  match ops with
  | [] => true
  | o :: ops' => wf_op fl n o && wf_hist fl (n_after n o) ops'
  end.

(* the registrations a lookup from r must consult: the storages of the registries of the C3
   order of the CURRENT base graph, nearest first *)
Definition chain_regs (s : sys) (r : nat) : list reg := map (fun i => rs_reg (get s i)) (fresh_ro s r).

Definition res_of {A} (o : option A) : res A := match o with Some v => RVal v | None => RDefault end.

(* the registry whose generation operation [o] bumps when it runs in state [s]
   (None: [o] is a query, or a storage operation that changes nothing) *)
Definition changed_gen (s : sys) (m : nat) (f : reg -> reg) : option nat :=
  if Nat.eqb (generation (f (rs_reg (get s m)))) (generation (rs_reg (get s m))) then None else Some m.

Definition bump_target (W : world) (s : sys) (o : rop) : option nat :=
  match o with
  | OSetRegBases m _ => Some m
  | ORebuild m => Some m        (* __init__ -> _setBases -> changed, whatever is replayed *)
  | ORegister m req p n v => changed_gen s m (fun g => register W g req p n v)
  | OUnregister m req p n v => changed_gen s m (fun g => unregister W g req p n v)
  | OSubscribe m req p v => changed_gen s m (fun g => subscribe W g req p v)
  | OUnsubscribe m req p v => changed_gen s m (fun g => unsubscribe W g req p v)
  | _ => None
  end.

(* ------------------------------------------------------------------ mixed registry graphs
   Histories over registries of BOTH flavours.  [fls] lists the flavours of the existing
   registries.  A push registry (AdapterRegistry) may only have push bases: its _setBases calls
   ``base._addSubregistry(self)``, which VerifyingAdapterRegistry does not have (AttributeError
   in the real code); a verifying registry may have bases of either flavour (the persistent
   site manager over the global registry).  [wf_op fl n] above is the homogeneous special case. *)
Definition fl_at (fls : list flavour) (b : nat) : flavour := nth b fls Push.
Definition is_push (f : flavour) : bool := match f with Push => true | Verifying => false end.
Definition push_bases_ok (fls : list flavour) (f : flavour) (bs : list nat) : bool :=
  match f with Push => forallb (fun b => is_push (fl_at fls b)) bs | Verifying => true end.

Definition mwf_op (fls : list flavour) (o : rop) : bool :=
  let n := length fls in
  match o with
  | ONewReg f bs => forallb (fun b => Nat.ltb b n) bs && push_bases_ok fls f bs
  | OSetRegBases r bs => Nat.ltb r n && forallb (fun b => Nat.ltb b r) bs && push_bases_ok fls (fl_at fls r) bs
  | ORebuild r
  | ORegister r _ _ _ _ | OUnregister r _ _ _ _ | OSubscribe r _ _ _ | OUnsubscribe r _ _ _
  | QLookup r _ _ _ | QLookup1 r _ _ _ | QLookupAll r _ _ | QNames r _ _ | QSubscriptions r _ _
  | QRegistered r _ _ _ | QSubscribed r _ _ _ | QAllRegistrations r | QAllSubscriptions r
  | QQueryAdapter r _ _ _ | QAdapterHook r _ _ _ | QQueryMultiAdapter r _ _ _ | QSubscribers r _ _ =>
      Nat.ltb r n
  end.

Definition fls_after (fls : list flavour) (o : rop) : list flavour :=
  match o with ONewReg f _ => fls ++ [f] | _ => fls end.

Fixpoint mwf_hist (fls : list flavour) (ops : list rop) : bool :=
  match ops with
  | [] => true
  | o :: ops' => mwf_op fls o && mwf_hist (fls_after fls o) ops'
  end.

(* the flavours of the registries of a system *)
Definition flavours (s : sys) : list flavour := map rs_flavour s.
