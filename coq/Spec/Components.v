(* C16 -- the abstract specification of Components bookkeeping: a LEDGER of live registrations.

   The ledger is four plain lists of registration records.  [spec_step] says, for each of the
   eight mutators (and re-__init__), what the ledger becomes, what the call returns, and which
   registrations the call REMOVED and ADDED.  The property then reads:
     listings   registered*() = the ledger;
     events     the call emits ``Unregistered`` for each removed registration, then ``Registered``
                for each added one, and nothing else ([events_ok]);
     returns    unregister* return "something was removed";
     registries the two adapter registries hold exactly what the ledger determines
                (Properties/C16.v), so every query answers from the ledger ([q_*] below: the
                oracles the tie applies to the implementation's answers);
     probe      rebuildUtilityRegistryFromLocalCache() reports nothing to repair.
   Nothing here looks at the registries, the counting cache or the order of dictionaries. *)
From Coq Require Import List Arith Bool.
Import ListNotations.
From ZI Require Import Model.Ro Model.Adapter Model.Components.

Definition urec := (spec * name * value * info * option nat)%type.     (* provided name component info factory *)
Definition arec := (list spec * spec * name * value * info)%type.       (* required provided name factory info *)
Definition srec := (list spec * spec * value * info)%type.              (* required provided factory info *)
Definition hrec := (list spec * value * info)%type.                     (* required handler info *)

Record ledger := mkL { l_u : list urec; l_a : list arec; l_s : list srec; l_h : list hrec }.
Definition lempty : ledger := mkL [] [] [] [].

Definition rec_u (r : urec) : regrec := let '(p, n, c, i, f) := r in RU p n c i f.
Definition rec_a (r : arec) : regrec := let '(q, p, n, f, i) := r in RA q p n f i.
Definition rec_s (r : srec) : regrec := let '(q, p, f, i) := r in RS q p (Some f) i.
Definition rec_h (r : hrec) : regrec := let '(q, f, i) := r in RH q (Some f) i.

Definition u_key (p : spec) (n : name) (r : urec) : bool :=
  let '(p', n', _, _, _) := r in Nat.eqb p' p && Nat.eqb n' n.
Definition a_key (q : list spec) (p : spec) (n : name) (r : arec) : bool :=
  let '(q', p', n', _, _) := r in lspec_eqb q' q && Nat.eqb p' p && Nat.eqb n' n.
(* the factory argument of an unregister call: None matches every factory, otherwise == *)
Definition f_sel (f : option value) (stored : value) : bool :=
  match f with None => true | Some f' => v_eq stored f' end.
Definition s_sel (f : option value) (q : list spec) (p : spec) (r : srec) : bool :=
  let '(q', p', f', _) := r in lspec_eqb q' q && Nat.eqb p' p && f_sel f f'.
Definition h_sel (f : option value) (q : list spec) (r : hrec) : bool :=
  let '(q', f', _) := r in lspec_eqb q' q && f_sel f f'.

Definition value_eqb (a b : value) : bool := Nat.eqb (vid a) (vid b) && Nat.eqb (veq a) (veq b).

Definition nonempty {A} (l : list A) : bool := match l with [] => false | _ => true end.

(* ledger', return value, removed, added *)
Definition outcome := (ledger * ret * list regrec * list regrec)%type.

Definition spec_step (L : ledger) (o : cop) : outcome :=
  match o with
  | RegUtility c p n i f _ =>
      match find (u_key p n) (l_u L) with
      | Some (_, _, oc, oi, of) =>
          if v_eq oc c && Nat.eqb oi i then (L, RNone, [], [])          (* equal (component, info): no-op *)
          else (mkL (filter (fun r => negb (u_key p n r)) (l_u L) ++ [(p, n, c, i, f)]) (l_a L) (l_s L) (l_h L),
                RNone, [RU p n oc oi of], [RU p n c i f])
      | None => (mkL (l_u L ++ [(p, n, c, i, f)]) (l_a L) (l_s L) (l_h L), RNone, [], [RU p n c i f])
      end
  | UnregUtility c p n =>
      match find (u_key p n) (l_u L) with
      | Some (_, _, oc, oi, of) =>
          if match c with Some c' => v_eq c' oc | None => true end
          then (mkL (filter (fun r => negb (u_key p n r)) (l_u L)) (l_a L) (l_s L) (l_h L),
                RBool true, [RU p n oc oi of], [])
          else (L, RBool false, [], [])
      | None => (L, RBool false, [], [])
      end
  | RegAdapter f req p n i _ =>
      let q := map conv req in
      match find (a_key q p n) (l_a L) with
      | Some (_, _, _, of, oi) =>
          if value_eqb of f && Nat.eqb oi i then (L, RNone, [], [])   (* the very same registration *)
          else (mkL (l_u L) (map (fun r => if a_key q p n r then (q, p, n, f, i) else r) (l_a L)) (l_s L) (l_h L),
                RNone, [RA q p n of oi], [RA q p n f i])
      | None => (mkL (l_u L) (l_a L ++ [(q, p, n, f, i)]) (l_s L) (l_h L), RNone, [], [RA q p n f i])
      end
  | UnregAdapter f req p n =>
      let q := map conv req in
      match find (a_key q p n) (l_a L) with
      | Some (_, _, _, of, oi) =>
          if f_sel f of
          then (mkL (l_u L) (filter (fun r => negb (a_key q p n r)) (l_a L)) (l_s L) (l_h L),
                RBool true, [RA q p n of oi], [])
          else (L, RBool false, [], [])
      | None => (L, RBool false, [], [])
      end
  | RegSub f req p n i _ =>
      if negb (Nat.eqb n 0) then (L, RTypeError, [], [])                 (* named subscribers unsupported *)
      else let q := map conv req in
           (mkL (l_u L) (l_a L) (l_s L ++ [(q, p, f, i)]) (l_h L), RNone, [], [RS q p (Some f) i])
  | UnregSub f req p n =>
      if negb (Nat.eqb n 0) then (L, RTypeError, [], [])
      else let q := map conv req in
           let gone := filter (s_sel f q p) (l_s L) in
           (mkL (l_u L) (l_a L) (filter (fun r => negb (s_sel f q p r)) (l_s L)) (l_h L),
            RBool (nonempty gone), map rec_s gone, [])
  | RegHandler f req n i _ =>
      if negb (Nat.eqb n 0) then (L, RTypeError, [], [])
      else let q := map conv req in
           (mkL (l_u L) (l_a L) (l_s L) (l_h L ++ [(q, f, i)]), RNone, [], [RH q (Some f) i])
  | UnregHandler f req n =>
      if negb (Nat.eqb n 0) then (L, RTypeError, [], [])
      else let q := map conv req in
           let gone := filter (h_sel f q) (l_h L) in
           (mkL (l_u L) (l_a L) (l_s L) (filter (fun r => negb (h_sel f q r)) (l_h L)),
            RBool (nonempty gone), map rec_h gone, [])
  | UtilityBoth _ _ _ _ => (L, RTypeError, [], [])    (* rejected before anything happens *)
  | Reinit => (lempty, RNone, [], [])              (* test clean-up: everything forgotten, silently *)
  end.

Definition o_ledger (x : outcome) : ledger := fst (fst (fst x)).
Definition o_ret (x : outcome) : ret := snd (fst (fst x)).
Definition o_removed (x : outcome) : list regrec := snd (fst x).
Definition o_added (x : outcome) : list regrec := snd x.

Definition ledger_of (ops : list cop) : ledger := fold_left (fun L o => o_ledger (spec_step L o)) ops lempty.

(* ---- events *)
Definition onat_eqb (a b : option nat) : bool :=
  match a, b with None, None => true | Some x, Some y => Nat.eqb x y | _, _ => false end.
Definition ovalue_eqb (a b : option value) : bool :=
  match a, b with None, None => true | Some x, Some y => value_eqb x y | _, _ => false end.

Definition regrec_eqb (a b : regrec) : bool :=
  match a, b with
  | RU p n c i f, RU p' n' c' i' f' =>
      Nat.eqb p p' && Nat.eqb n n' && value_eqb c c' && Nat.eqb i i' && onat_eqb f f'
  | RA q p n f i, RA q' p' n' f' i' =>
      lspec_eqb q q' && Nat.eqb p p' && Nat.eqb n n' && value_eqb f f' && Nat.eqb i i'
  | RS q p f i, RS q' p' f' i' => lspec_eqb q q' && Nat.eqb p p' && ovalue_eqb f f' && Nat.eqb i i'
  | RH q f i, RH q' f' i' => lspec_eqb q q' && ovalue_eqb f f' && Nat.eqb i i'
  | _, _ => false
  end.

(* does the record carried by an ``Unregistered`` event designate the removed registration?
   utilities: same key, info, factory and an ==-equal component (the caller's component is
   reported); adapters: the very registration; subscription adapters / handlers: same required,
   provided and -- when the caller named one -- an ==-equal factory (the event carries the
   caller's arguments and an empty info). *)
Definition designates (seen removed : regrec) : bool :=
  match seen, removed with
  | RU p n c i f, RU p' n' c' i' f' =>
      Nat.eqb p p' && Nat.eqb n n' && v_eq c c' && Nat.eqb i i' && onat_eqb f f'
  | RA _ _ _ _ _, RA _ _ _ _ _ => regrec_eqb seen removed
  | RS q p f _, RS q' p' (Some f') _ => lspec_eqb q q' && Nat.eqb p p' && f_sel f f'
  | RH q f _, RH q' (Some f') _ => lspec_eqb q q' && f_sel f f'
  | _, _ => false
  end.

Fixpoint forall2b {A B} (f : A -> B -> bool) (a : list A) (b : list B) : bool :=
  match a, b with
  | [], [] => true
  | x :: a', y :: b' => f x y && forall2b f a' b'
  | _, _ => false
  end.

Definition ev_ok (seen expected : event) : bool :=
  match seen, expected with
  | Registered r, Registered r' => regrec_eqb r r'
  | Unregistered r, Unregistered r' => designates r r'
  | _, _ => false
  end.

(* a register call made with ``event=False`` does not announce what it added (an Unregistered
   event for a registration it displaced is still due) *)
Definition announces (o : cop) : bool :=
  match o with
  | RegUtility _ _ _ _ _ ev | RegAdapter _ _ _ _ _ ev | RegSub _ _ _ _ _ ev | RegHandler _ _ _ _ ev => ev
  | _ => true
  end.

(* exactly one Unregistered per removed registration, then one Registered per added one *)
Definition events_ok (seen : list event) (o : cop) (x : outcome) : bool :=
  forall2b ev_ok seen (map Unregistered (o_removed x)
                       ++ (if announces o then map Registered (o_added x) else [])).

(* ---- the two shapes on which the implementation is known to deviate (findings F9, F11);
   [benign] excludes them *)
Definition multi_removal (L : ledger) (o : cop) : bool :=          (* F9 *)
  match o with
  | UnregSub _ _ _ _ | UnregHandler _ _ _ => Nat.ltb 1 (length (o_removed (spec_step L o)))
  | _ => false
  end.
Definition adapter_overwrite (L : ledger) (o : cop) : bool :=      (* F11 *)
  match o with
  | RegAdapter f req p n i _ => match find (a_key (map conv req) p n) (l_a L) with Some _ => true | None => false end
  | _ => false
  end.
Definition benign (L : ledger) (o : cop) : bool := negb (multi_removal L o) && negb (adapter_overwrite L o).

(* what the implementation does emit in those two shapes (used by the tie to recognise a known
   finding exactly, never to excuse anything else) *)
Definition events_ok_tolerant (tolF9 tolF11 : bool) (L : ledger) (o : cop) (seen : list event) : bool :=
  events_ok seen o (spec_step L o)
  || (tolF9 && multi_removal L o &&
      match seen, o_removed (spec_step L o) with
      | [Unregistered r], r' :: _ => designates r r'
      | _, _ => false
      end)
  || (tolF11 && adapter_overwrite L o &&
      match seen, o with
      | [Registered r], RegAdapter f req p n i true => regrec_eqb r (RA (map conv req) p n f i)
      | [], RegAdapter f req p n i false => true
      | _, _ => false
      end).

(* ---- what the listings determine in the two underlying registries (Properties/C16.v,
   C16_registries_determined_by_listings) *)
(* no two elements are == *)
Fixpoint nodupeq (l : list value) : Prop :=
  match l with [] => True | x :: l' => (forall y, In y l' -> v_eq x y = false) /\ nodupeq l' end.

(* utilities.register((), provided, name, component), one per listed utility *)
Definition util_regs (l : list regrec) : list (akey * value) :=
  flat_map (fun r => match r with RU p n c _ _ => [(([], p, n), c)] | _ => [] end) l.
(* "a utility ==-equal to c is listed under provided p" *)
Definition util_has (l : list regrec) (p : spec) (c : value) : bool :=
  existsb (fun r => match r with RU p' _ c' _ _ => Nat.eqb p' p && v_eq c' c | _ => false end) l.
(* adapters.register(required, provided, name, factory), one per listed adapter *)
Definition adapter_regs (l : list regrec) : list (akey * value) :=
  flat_map (fun r => match r with RA q p n f _ => [((q, p, n), f)] | _ => [] end) l.
(* adapters.subscribe(required, provided-or-None, factory): the factories listed under one key,
   in listing order, with multiplicity *)
Definition sub_facs (l : list regrec) (q : list spec) (p : option spec) : list value :=
  flat_map (fun r => match r, p with
                     | RS q' p' (Some f) _, Some p0 => if lspec_eqb q' q && Nat.eqb p' p0 then [f] else []
                     | RH q' (Some f) _, None => if lspec_eqb q' q then [f] else []
                     | _, _ => []
                     end) l.

Definition is_unregister (o : cop) : bool :=
  match o with
  | UnregUtility _ _ _ | UnregAdapter _ _ _ _ | UnregSub _ _ _ _ | UnregHandler _ _ _ => true
  | _ => false
  end.

(* ---- query oracles: what each query method may answer, from the ledger alone.
   "applicable" = every required spec is in the resolution order of what the object provides and
   the registration's provided extends the one asked for; "best" = lexicographically least
   positions in those resolution orders (most specific); among equally specific registrations
   (same required, different provided) any may win. *)
Section Queries.
  Variable W : world.
  Variable call : value -> list nat -> option nat.

  Definition ext (a b : spec) : bool := isOrExtends W a b.

  Fixpoint index_of (x : spec) (l : list spec) : nat :=
    match l with [] => 0 | y :: l' => if Nat.eqb x y then 0 else S (index_of x l') end.

  Fixpoint applicable (q provs : list spec) : bool :=
    match q, provs with
    | [], [] => true
    | r :: q', o :: provs' => ext o r && applicable q' provs'
    | _, _ => false
    end.
  Fixpoint rank (q provs : list spec) : list nat :=
    match q, provs with
    | r :: q', o :: provs' => index_of r (w_sro W o) :: rank q' provs'
    | _, _ => []
    end.
  Fixpoint lex_le (a b : list nat) : bool :=
    match a, b with
    | [], _ => true
    | _ :: _, [] => false
    | x :: a', y :: b' => if Nat.ltb x y then true else if Nat.ltb y x then false else lex_le a' b'
    end.

  Fixpoint ins_nat (x : nat) (l : list nat) : list nat :=
    match l with [] => [x] | y :: l' => if Nat.leb x y then x :: l else y :: ins_nat x l' end.
  Definition sort_nat (l : list nat) : list nat := fold_right ins_nat [] l.
  Fixpoint lnat_eqb (a b : list nat) : bool :=
    match a, b with
    | [], [] => true
    | x :: a', y :: b' => Nat.eqb x y && lnat_eqb a' b'
    | _, _ => false
    end.
  Definition same_bag (a b : list nat) : bool := lnat_eqb (sort_nat a) (sort_nat b).
  Fixpoint nodup_nat (l : list nat) : bool :=
    match l with [] => true | x :: l' => negb (existsb (Nat.eqb x) l') && nodup_nat l' end.
  Fixpoint dedup_nat (l : list nat) : list nat :=
    match l with [] => [] | x :: l' => if existsb (Nat.eqb x) l' then dedup_nat l' else x :: dedup_nat l' end.

  (* utilities *)
  Definition u_cands (L : ledger) (p : spec) (n : name) : list urec :=
    filter (fun r => let '(p', n', _, _, _) := r in Nat.eqb n' n && ext p' p) (l_u L).
  Definition u_comp (r : urec) : value := let '(_, _, c, _, _) := r in c.
  Definition u_name (r : urec) : name := let '(_, n, _, _, _) := r in n.
  Definition u_prov (r : urec) : spec := let '(p, _, _, _, _) := r in p.

  (* The oracles take the ledgers of the object's current base chain, nearest first: a nearer
     object's registrations win over those of its bases (single lookups, per name), and
     everything applicable along the chain is returned by the "all" queries. *)

  (* queryUtility(p, n) answered [ans] (a component identity, or None) *)
  Fixpoint q_queryUtility (Ls : list ledger) (p : spec) (n : name) (ans : option nat) : bool :=
    match Ls with
    | [] => match ans with None => true | Some _ => false end
    | L :: Ls' =>
        match u_cands L p n with
        | [] => q_queryUtility Ls' p n ans
        | cs => match ans with
                | None => false
                | Some v => existsb (fun r => Nat.eqb (vid (u_comp r)) v) cs
                end
        end
    end.

  (* getUtilitiesFor(p) answered the (name, component) pairs [ans] *)
  Definition q_getUtilitiesFor (Ls : list ledger) (p : spec) (ans : list (name * nat)) : bool :=
    nodup_nat (map fst ans)
    && forallb (fun nv => q_queryUtility Ls p (fst nv) (Some (snd nv))) ans
    && forallb (fun L => forallb (fun r => negb (ext (u_prov r) p) || existsb (Nat.eqb (u_name r)) (map fst ans)) (l_u L)) Ls.

  (* getAllUtilitiesRegisteredFor(p) answered the components [ans] = (identity, equality class):
     per object of the chain, one component per distinct (provided, ==-class) among the
     registrations whose provided extends p (classes compared as a bag), and every component
     returned is one of those live utilities.  [lenient] drops the second clause: the
     implementation keeps the FIRST component of a class subscribed while an equal one is still
     registered, so it can hand out an object that was unregistered (finding F13). *)
  Definition u_live (L : ledger) (p : spec) : list urec := filter (fun r => ext (u_prov r) p) (l_u L).
  Definition u_classes (L : ledger) (p : spec) : list nat :=
    let live := u_live L p in
    flat_map (fun p' => dedup_nat (map (fun r => veq (u_comp r)) (filter (fun r => Nat.eqb (u_prov r) p') live)))
             (dedup_nat (map u_prov live)).
  Definition q_getAllUtilities (lenient : bool) (Ls : list ledger) (p : spec) (ans : list (nat * nat)) : bool :=
    same_bag (map snd ans) (flat_map (fun L => u_classes L p) Ls)
    && (lenient || forallb (fun a => existsb (fun L => existsb (fun r => Nat.eqb (vid (u_comp r)) (fst a)) (u_live L p)) Ls) ans).

  (* adapters *)
  Definition a_req (r : arec) : list spec := let '(q, _, _, _, _) := r in q.
  Definition a_fac (r : arec) : value := let '(_, _, _, f, _) := r in f.
  Definition a_name (r : arec) : name := let '(_, _, n, _, _) := r in n.
  Definition a_cands (L : ledger) (provs : list spec) (p : spec) (n : name) : list arec :=
    filter (fun r => let '(q, p', n', _, _) := r in Nat.eqb n' n && ext p' p && applicable q provs) (l_a L).
  Definition a_best (L : ledger) (provs : list spec) (p : spec) (n : name) : list arec :=
    let cs := a_cands L provs p n in
    filter (fun r => forallb (fun r' => lex_le (rank (a_req r) provs) (rank (a_req r') provs)) cs) cs.

  (* queryAdapter / queryMultiAdapter(objects, p, n) answered [ans]; objects = (provides, id) *)
  Fixpoint q_queryMultiAdapter (Ls : list ledger) (os : list cobj) (p : spec) (n : name) (ans : option nat) : bool :=
    match Ls with
    | [] => match ans with None => true | Some _ => false end
    | L :: Ls' =>
        match a_best L (map fst os) p n with
        | [] => q_queryMultiAdapter Ls' os p n ans
        | best => existsb (fun r => onat_eqb (call (a_fac r) (map snd os)) ans) best
        end
    end.

  (* getAdapters(objects, p) answered the (name, result) pairs [ans] *)
  Definition q_getAdapters (Ls : list ledger) (os : list cobj) (p : spec) (ans : list (name * nat)) : bool :=
    let provs := map fst os in
    let names := dedup_nat (flat_map (fun L => map a_name (filter (fun r => let '(q, p', _, _, _) := r in
                                                                             ext p' p && applicable q provs) (l_a L))) Ls) in
    nodup_nat (map fst ans)
    && forallb (fun nr => existsb (Nat.eqb (fst nr)) names) ans
    && forallb (fun n => q_queryMultiAdapter Ls os p n
                           (match find (fun nr => Nat.eqb (fst nr) n) ans with Some nr => Some (snd nr) | None => None end))
               names.

  (* subscribers(objects, p): every applicable subscription adapter of the chain is called once per
     registration; the results are the non-None returns.  Bags (the order is C07's subject). *)
  Definition q_subscribers (Ls : list ledger) (os : list cobj) (p : spec) (results called : list nat) : bool :=
    let provs := map fst os in
    let fs := flat_map (fun L => map (fun r => let '(_, _, f, _) := r in f)
                                     (filter (fun r => let '(q, p', _, _) := r in ext p' p && applicable q provs) (l_s L))) Ls in
    same_bag called (map vid fs)
    && same_bag results (flat_map (fun f => match call f (map snd os) with Some x => [x] | None => [] end) fs).

  (* handle(objects): every applicable handler of the chain is called once per registration *)
  Definition q_handle (Ls : list ledger) (os : list cobj) (called : list nat) : bool :=
    let provs := map fst os in
    same_bag called (flat_map (fun L => map (fun r => let '(_, f, _) := r in vid f)
                                            (filter (fun r => let '(q, _, _) := r in applicable q provs) (l_h L))) Ls).

  (* rebuildUtilityRegistryFromLocalCache(): nothing needed, one "did not" per utility *)
  Definition q_probe (L : ledger) (ans : nat * nat * nat * nat) : bool :=
    let '(nr, dr, ns, ds) := ans in
    Nat.eqb nr 0 && Nat.eqb ns 0 && Nat.eqb dr (length (l_u L)) && Nat.eqb ds (length (l_u L)).
End Queries.
