(* C09 extension — what it means that a nested-dictionary registry (Model/Trie.v) REPRESENTS a flat
   registry (Model/Adapter.v).

   wfd okp n t   t is a well-formed dictionary whose key paths have length n + 1 and end in payloads
                 satisfying okp: unique keys at every level, NO EMPTY SUB-DICTIONARY stored anywhere
   binv okp b    byorder[i] is such a dictionary with paths of length i + 2 (i required specifications,
                 provided, name); entries missing at the end count as empty
   TrieInv t     both byorder lists are well-formed (subscriber tuples non-empty) and have no trailing
                 empty entry (strip = the ``while byorder and not byorder[-1]: del byorder[-1]`` loop)
   afind / sfind the abstraction: the value / tuple stored under a full key, i.e. _find_leaf
   R W t r       t represents r: TrieInv t, r satisfies the invariant of reachable flat registries, every
                 adapter key finds the same value in both, every subscription key the same tuple, and
                 _provided / extendors / generation are identical *)
From Coq Require Import List Arith Bool.
Import ListNotations.
From ZI Require Import Model.Ro Model.Adapter Model.Trie Model.Bookkeeping Spec.Bookkeeping Proofs.Bookkeeping.

Fixpoint wfd {P : Type} (okp : P -> Prop) (n : nat) (t : trie P) : Prop :=
  match n with
  | 0 => NoDup (map fst (items t)) /\ (exists l, t = Node l)
         /\ forall k c, In (k, c) (items t) -> exists p, c = Leaf p /\ okp p
  | S n' => NoDup (map fst (items t)) /\ (exists l, t = Node l)
            /\ forall k c, In (k, c) (items t) -> wfd okp n' c /\ truthy c = true
  end.

Definition binv {P : Type} (okp : P -> Prop) (b : list (trie P)) : Prop :=
  forall i, wfd okp (S i) (order_get b i).

Definition afind (b : list (trie value)) (k : akey) : option value :=
  let '(req, p, n) := k in leaf_value (tfind (req ++ [p; n]) (order_get b (length req))).
Definition sfind (b : list (trie (list value))) (k : skey) : list value :=
  leaf_tuple (tfind (fst k ++ [pkey (snd k); 0]) (order_get b (length (fst k)))).

Definition okv (_ : value) : Prop := True.
Definition okl (l : list value) : Prop := l <> [].

Definition TrieInv (t : treg) : Prop :=
  binv okv (t_adapters t) /\ binv okl (t_subscribers t)
  /\ strip (t_adapters t) = t_adapters t /\ strip (t_subscribers t) = t_subscribers t.

Definition same_bk (x y : reg) : Prop :=
  provided_cnt x = provided_cnt y /\ extendors x = extendors y /\ generation x = generation y.

Definition R (W : world) (t : treg) (r : reg) : Prop :=
  TrieInv t /\ inv W r
  /\ (forall k, afind (t_adapters t) k = aget akey_eqb (adapters r) k)
  /\ (forall k, sfind (t_subscribers t) k = sub_leaf r k)
  /\ same_bk (bk t) r.
