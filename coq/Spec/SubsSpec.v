(* C07 — the ledger specification of subscribe / unsubscribe / subscriptions.

   A registry's subscription state is specified by a LEDGER: the list of live entries
   (required key, provided-or-None, value) in subscription order.
     subscribe k v            appends (k, v)
     unsubscribe k (Some v)   deletes every entry with key k whose value is ==-equal to v
     unsubscribe k None       deletes every entry with key k
     nothing else touches the ledger (register / unregister of adapters included).
   An entry is APPLICABLE to a query (looked-up specs, asked provided) when it has the same
   arity, every looked-up spec is-or-extends the entry's required spec at the same position,
   and the entry's provided interface is-or-extends the asked one (both None for handlers).
   subscriptions() must return exactly the applicable entries of the registries of the
   resolution order, base registries first, less specific required keys first, identical keys
   in ledger (= subscription) order.

   Only definitions here (the vocabulary of the statements in Properties/C07.v). *)
From Coq Require Import List Arith Bool.
Import ListNotations.
From ZI Require Import Model.Ro Model.Adapter.

Definition entry := (skey * value)%type.     (* ((required, provided-or-None), value) *)
Definition ledger := list entry.

(* the operations on ONE registry that a history is made of *)
Inductive sop :=
| SSub (req : list (option spec)) (p : option spec) (v : value)
| SUnsub (req : list (option spec)) (p : option spec) (v : option value)
| SReg (req : list (option spec)) (p : spec) (n : name) (v : option value)
| SUnreg (req : list (option spec)) (p : spec) (n : name) (v : option value).

(* does ``unsubscribe k ov`` delete entry e ? *)
Definition removes (k : skey) (ov : option value) (e : entry) : bool :=
  skey_eqb (fst e) k && match ov with None => true | Some v => v_eq (snd e) v end.

(* ---- the Spec: effect of an operation on the ledger *)
Definition lstep (L : ledger) (o : sop) : ledger :=
  match o with
  | SSub req p v => L ++ [((map conv req, p), v)]
  | SUnsub req p ov => filter (fun e => negb (removes (map conv req, p) ov e)) L
  | SReg _ _ _ _ | SUnreg _ _ _ _ => L
  end.

(* ---- the Model (Model/Adapter.v): effect of the same operation on the registry *)
Definition mstep (W : world) (r : reg) (o : sop) : reg :=
  match o with
  | SSub req p v => subscribe W r req p v
  | SUnsub req p ov => unsubscribe W r req p ov
  | SReg req p n v => register W r req p n v
  | SUnreg req p n v => unregister W r req p n v
  end.

Definition run_led (h : list sop) : ledger := fold_left lstep h [].
Definition run_reg (W : world) (h : list sop) : reg := fold_left (mstep W) h empty_reg.

(* values of the live entries with key k, in ledger order *)
Definition lvals (L : ledger) (k : skey) : list value :=
  map snd (filter (fun e => skey_eqb (fst e) k) L).

(* ---- applicability *)
Fixpoint req_applicable (W : world) (looked key : list spec) : bool :=
  match looked, key with
  | [], [] => true
  | s :: looked', x :: key' => isOrExtends W s x && req_applicable W looked' key'
  | _, _ => false
  end.

Definition prov_applicable (W : world) (asked have : option spec) : bool :=
  match asked, have with
  | None, None => true                          (* handlers *)
  | Some p, Some q => isOrExtends W q p
  | _, _ => false
  end.

Definition applicable (W : world) (looked : list spec) (asked : option spec) (e : entry) : bool :=
  req_applicable W looked (fst (fst e)) && prov_applicable W asked (snd (fst e)).

(* ---- order *)
(* ledger entries tagged with their position in the ledger (= subscription order) *)
Definition tag (L : ledger) : list (nat * entry) := combine (seq 0 (length L)) L.
Definition t_idx (te : nat * entry) : nat := fst te.
Definition t_req (te : nat * entry) : list spec := fst (fst (snd te)).
Definition t_prov (te : nat * entry) : option spec := snd (fst (snd te)).
Definition t_val (te : nat * entry) : value := snd (snd te).

(* position of the first occurrence of x in l (length l if absent) *)
Fixpoint index (x : spec) (l : list spec) : nat :=
  match l with [] => 0 | y :: l' => if Nat.eqb x y then 0 else S (index x l') end.

(* generality rank of a required key w.r.t. the looked-up specs: position by position, the
   index of the key's spec in the REVERSED __sro__ of the looked-up spec; Interface (least
   specific, last in every __sro__) has rank 0, the looked-up spec itself the largest rank *)
Fixpoint rank (W : world) (looked key : list spec) : list nat :=
  match looked, key with
  | s :: looked', x :: key' => index x (rev (w_sro W s)) :: rank W looked' key'
  | _, _ => []
  end.

(* strict lexicographic order, leftmost position most significant *)
Fixpoint lex_lt (a b : list nat) : Prop :=
  match a, b with
  | x :: a', y :: b' => x < y \/ (x = y /\ lex_lt a' b')
  | _, _ => False
  end.

(* "a may come before b" in the answer of one registry: a's required key is strictly less
   specific; or the required keys coincide and either the provided interfaces differ (the
   property does not constrain that order) or a was subscribed before b *)
Definition precedes (W : world) (looked : list spec) (a b : nat * entry) : Prop :=
  lex_lt (rank W looked (t_req a)) (rank W looked (t_req b))
  \/ (t_req a = t_req b /\ (t_prov a <> t_prov b \/ t_idx a < t_idx b)).

(* ---- the expected answer, constructively (a bucket sort of the ledger) *)
(* all candidate required keys, least specific first *)
Fixpoint req_seq (W : world) (looked : list spec) : list (list spec) :=
  match looked with
  | [] => [[]]
  | s :: rest => flat_map (fun x => map (cons x) (req_seq W rest)) (rev (w_sro W s))
  end.

Definition bucket (TL : list (nat * entry)) (k : skey) : list (nat * entry) :=
  filter (fun te => skey_eqb (fst (snd te)) k) TL.

(* [pord]: the order in which the provided interfaces are visited *)
Definition expected_tagged (W : world) (L : ledger) (pord : list (option spec)) (looked : list spec)
  : list (nat * entry) :=
  flat_map (fun rq => flat_map (fun q => bucket (tag L) (rq, q)) pord) (req_seq W looked).

(* the visiting order of provided interfaces the implementation uses: reversed extendors *)
Definition pord_of (r : reg) (asked : option spec) : list (option spec) :=
  match asked with
  | None => [None]
  | Some p => rev (map Some (ext_get (extendors r) p))
  end.

(* ---- bookkeeping vocabulary of the extendors invariant *)
(* live adapter registrations / subscription entries that provide p *)
Definition acount (r : reg) (p : spec) : nat :=
  length (filter (fun k => Nat.eqb (snd (fst k)) p) (map fst (adapters r))).
Definition lcount (L : ledger) (p : spec) : nat :=
  length (filter (fun e => ospec_eqb (snd (fst e)) (Some p)) L).
