(* C14 specification: the PEP 246 precedence of `I(obj[, alternate])`, as the property states it.

   The call is a list of *steps* tried in a fixed order; each step either passes (has no opinion)
   or decides the call (a return value or an exception).  The answer is the decision of the first
   step that does not pass, `TypeError("Could not adapt", obj, I)` if all pass, and the external
   actions performed are exactly those of the steps up to and including the deciding one.

     1. obj.__conform__(I)             decides if it returns non-None or raises; a missing
                                       __conform__ (AttributeError on access), a None attribute, a None
                                       result and the depth-0 TypeError of an unbound method pass
     2. I.providedBy(obj)              decides (returns obj) if true; an overridden providedBy
                                       (nearest definition along the chain) is asked instead of the
                                       built-in check, delegating up the chain with super()
     3. adapter_hooks[0](I, obj), adapter_hooks[1](I, obj), ...   each decides if it returns non-None or raises
     4. the alternate                  decides if it was given
   A custom __adapt__ (nearest definition along the interface's inheritance chain) takes the
   place of steps 2 and 3; if it delegates with super().__adapt__(obj), the next definition up
   the chain (finally steps 2 and 3) follows.

   This file shares only the vocabulary (behaviours, events, outcomes) with Model/Adapt.v. *)
From Coq Require Import List Bool Arith.
Import ListNotations.
From ZI Require Import Model.Adapt.

Inductive sres := Pass | Yield (r : outcome).

(* the external actions a step performs, and its verdict *)
Definition step := (list ev * sres)%type.

Definition conform_step (c : conform) : step :=
  match c with
  | CAbsent => ([EvGetConform], Pass)
  | CGetRaise e =>
      ([EvGetConform], match e_kind e with EAttr => Pass | _ => Yield (RaiseE (User e)) end)
  | CGetNone => ([EvGetConform], Pass)
  | CRetNone => ([EvGetConform; EvCallConform], Pass)
  | CRetValue v => ([EvGetConform; EvCallConform], Yield (Return v))
  | CRaise e => ([EvGetConform; EvCallConform], Yield (RaiseE (User e)))
  | CTypeErr0 => ([EvGetConform; EvCallConform], Pass)
  end.

Definition provided_step (p : bool) : step :=
  ([EvProvided], if p then Yield ReturnObj else Pass).

Definition hook_step (i : nat) (h : hook) : step :=
  ([EvHook i],
   match h with
   | HNone => Pass
   | HValue v => Yield (Return v)
   | HRaise e => Yield (RaiseE (User e))
   end).

Fixpoint hook_steps (i : nat) (hs : list hook) : list step :=
  match hs with
  | [] => []
  | h :: t => hook_step i h :: hook_steps (S i) t
  end.

(* [pdefs]: the providedBy overrides visible from the interface, nearest first *)
Fixpoint prov_steps (pdefs : list (nat * pbeh)) (o : obj) : list step :=
  match pdefs with
  | [] => [provided_step (provides o)]
  | (i, PBTrue) :: _ => [([EvCustomProv i], Yield ReturnObj)]
  | (i, PBFalse) :: _ => [([EvCustomProv i], Pass)]
  | (i, PBRaise e) :: _ => [([EvCustomProv i], Yield (RaiseE (User e)))]
  | (i, PBDelegate) :: rest => ([EvCustomProv i], Pass) :: prov_steps rest o
  end.

Definition default_steps (pdefs : list (nat * pbeh)) (o : obj) : list step :=
  prov_steps pdefs o ++ hook_steps 0 (hooks o).

(* [defs]: the custom __adapt__ definitions visible from the interface, nearest first *)
Fixpoint adapt_steps (defs : list (nat * cbeh)) (pdefs : list (nat * pbeh)) (o : obj) : list step :=
  match defs with
  | [] => default_steps pdefs o
  | (i, CANone) :: _ => [([EvCustom i], Pass)]
  | (i, CAValue v) :: _ => [([EvCustom i], Yield (Return v))]
  | (i, CARaise e) :: _ => [([EvCustom i], Yield (RaiseE (User e)))]
  | (i, CADelegate) :: rest => ([EvCustom i], Pass) :: adapt_steps rest pdefs o
  end.

Definition alternate_step (a : option nat) : step :=
  ([], match a with Some _ => Yield ReturnAlt | None => Pass end).

Definition steps (defs : list (nat * cbeh)) (pdefs : list (nat * pbeh)) (o : obj) : list step :=
  conform_step (conf o) :: adapt_steps defs pdefs o ++ [alternate_step (alternate o)].

(* decision of the first step that does not pass, with the actions performed until then *)
Fixpoint first_yield (l : list step) : list ev * sres :=
  match l with
  | [] => ([], Pass)
  | (evs, Pass) :: t => let (lg, r) := first_yield t in (evs ++ lg, r)
  | (evs, Yield r) :: _ => (evs, Yield r)
  end.

Definition decide (r : sres) : outcome :=
  match r with Pass => RaiseCouldNotAdapt | Yield x => x end.

(* the custom __adapt__ definitions of an inheritance chain (root first, levels numbered from
   [i]) as seen from its last interface: nearest first *)
Fixpoint custom_defs (i : nat) (chain : list lvl) : list (nat * cbeh) :=
  match chain with
  | [] => []
  | l :: t => custom_defs (S i) t ++ match l_adapt l with Some b => [(i, b)] | None => [] end
  end.

(* likewise the providedBy overrides *)
Fixpoint prov_defs (i : nat) (chain : list lvl) : list (nat * pbeh) :=
  match chain with
  | [] => []
  | l :: t => prov_defs (S i) t ++ match l_prov l with Some b => [(i, b)] | None => [] end
  end.

(* I(obj[, alternate]) for the last interface of [chain]: (actions performed, outcome) *)
Definition spec (chain : list lvl) (o : obj) : list ev * outcome :=
  let (lg, r) := first_yield (steps (custom_defs 0 chain) (prov_defs 0 chain) o) in (lg, decide r).

(* I.__adapt__(obj): the same without the conform and alternate steps; Pass = returns None *)
Definition spec_adapt (chain : list lvl) (o : obj) : list ev * sres :=
  first_yield (adapt_steps (custom_defs 0 chain) (prov_defs 0 chain) o).

(* A registry's adapter_hook installed in adapter_hooks (adapter.py LookupBase.adapter_hook /
   queryAdapter: `queryAdapter(obj, I)` *is* `adapter_hook(I, obj)`): the hook answers what
   registry.queryAdapter(obj, I) answers, [q]; None means no adapter. *)
Definition registry_hook (q : option nat) : hook :=
  match q with Some v => HValue v | None => HNone end.

(* a step has no opinion *)
Definition passes (s : step) : Prop := snd s = Pass.

(* the provided-check (built-in or overridden) does not say "provided" and does not raise *)
Definition provided_passes (pdefs : list (nat * pbeh)) (o : obj) : bool :=
  match snd (first_yield (prov_steps pdefs o)) with Pass => true | Yield _ => false end.

(* the conform step has no opinion *)
Definition conform_passes (c : conform) : bool :=
  match snd (conform_step c) with Pass => true | Yield _ => false end.
