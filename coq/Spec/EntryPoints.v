(* C08 - vocabulary of the statements about the lookup entry points (Model/Lookup.v).
   Everything is parametric in the uncached computations and in the factory oracle [call]. *)
From Coq Require Import List Arith Bool.
Import ListNotations.
From ZI Require Import Model.Ro Model.Adapter Model.Lookup.

Section Spec.
  Variable u_lookup : list spec -> spec -> name -> option value.
  Variable u_lookupAll : list spec -> spec -> list (name * value).
  Variable u_subscriptions : list spec -> option spec -> list value.
  Variable call : value -> list nat -> option nat.

  (* Every entry of the three caches is what the uncached function answers on its key (a cached
     None is an uncached None).  Single-required keys are stored bare: [ckey_of].  Entries under a
     key that no entry point ever reads (CMulti [s]) are unconstrained. *)
  Definition CacheValid (c : caches) : Prop :=
    (forall req p n r, aget cache_key_eqb (c_cache c) (p, n, ckey_of req) = Some r -> r = u_lookup req p n) /\
    (forall req p r, aget mkey_eqb (c_mcache c) (p, req) = Some r -> r = u_lookupAll req p) /\
    (forall req p r, aget sckey_eqb (c_scache c) (p, req) = Some r -> r = u_subscriptions req p).

  (* "calling the factory found by lookup with the objects; default when there is no factory or
     the factory returns None" *)
  Definition apply_factory (r : res value) (args : list nat) : res nat :=
    match r with
    | RVal f => match call f args with Some x => RVal x | None => RDefault end
    | RDefault => RDefault
    | RValueError => RValueError
    end.

  (* "calling every element in order and dropping None results" *)
  Definition call_all (subs : list value) (args : list nat) : list nat :=
    flat_map (fun s => match call s args with Some r => [r] | None => [] end) subs.

  (* LookupBase.queryAdapter(object, provided, name, default) = adapter_hook(provided, object, ...)
     (adapter.py LookupBase.queryAdapter; C: LB_queryAdapter calls _adapter_hook) *)
  Definition queryAdapter (c : caches) (o : obj) (p : spec) (n : name_arg) : caches * res nat :=
    adapter_hook u_lookup call c p o n.

  (* a call of any entry point (used to quantify over all warm-up sequences) *)
  Inductive epcall :=
  | EPLookup (req : list spec) (p : spec) (n : name_arg)
  | EPLookup1 (r : spec) (p : spec) (n : name_arg)
  | EPAdapterHook (p : spec) (o : obj) (n : name_arg)
  | EPQueryAdapter (o : obj) (p : spec) (n : name_arg)
  | EPQueryMultiAdapter (os : list obj) (p : spec) (n : name_arg)
  | EPLookupAll (req : list spec) (p : spec)
  | EPNames (req : list spec) (p : spec)
  | EPSubscriptions (req : list spec) (p : option spec)
  | EPSubscribers (os : list obj) (p : option spec).

  Definition ep_step (c : caches) (e : epcall) : caches :=
    match e with
    | EPLookup req p n => fst (lookup u_lookup c req p n)
    | EPLookup1 r p n => fst (lookup1 u_lookup c r p n)
    | EPAdapterHook p o n => fst (adapter_hook u_lookup call c p o n)
    | EPQueryAdapter o p n => fst (queryAdapter c o p n)
    | EPQueryMultiAdapter os p n => fst (queryMultiAdapter u_lookup call c os p n)
    | EPLookupAll req p => fst (lookupAll u_lookupAll c req p)
    | EPNames req p => fst (names u_lookupAll c req p)
    | EPSubscriptions req p => fst (subscriptions u_subscriptions c req p)
    | EPSubscribers os p => fst (subscribers u_subscriptions call c os p)
    end.

  (* the cache state after any sequence of entry-point calls from the state left by changed() *)
  Definition warm (es : list epcall) : caches := fold_left ep_step es empty_caches.
End Spec.

(* dictionary-invariant of the adapter storage: keys are unique *)
Definition adapters_wf (r : reg) : Prop := NoDup (map fst (adapters r)).
