import sys, gc
sys.path.insert(0, "/verif/harness/drivers")
import _boot
from zope.interface import Interface
from zope.interface.adapter import AdapterRegistry, AdapterLookup, VerifyingAdapterRegistry
from zope.interface import _zope_interface_coptimizations as C

class I(Interface): pass
class P(Interface): pass

class L(C.LookupBase):
    def __init__(self):
        self.log = []
    def _find_cache(self):
        return [r for r in gc.get_referents(self) if isinstance(r, dict)]
    def _uncached_lookup(self, required, provided, name=''):
        # find inner cache dict: referents of top dict
        tops = self._find_cache()
        inner = [d for t in tops for d in t.values() if isinstance(d, dict)]
        rc_before = [sys.getrefcount(d) for d in inner]
        self.changed(None)
        rc_after = [sys.getrefcount(d) for d in inner]
        if len(self.log) < 3: self.log.append((rc_before, rc_after))
        return "r"
    _uncached_lookupAll = lambda self, req, prov: (self.changed(None), ("x",))[1]
    _uncached_subscriptions = lambda self, req, prov: (self.changed(None), ["s"])[1]

l = L()
for i in range(2000):
    assert l.lookup((I,), P, '') == "r"
    assert l.lookupAll((I,), P) == ("x",)
    assert l.subscriptions((I,), P) == ["s"]
print(l.log[:2])
# leak check
import tracemalloc
gc.collect()
n0 = len(gc.get_objects())
for i in range(5000):
    l.lookup((I,), P, '')
    l.lookupAll((I,), P)
    l.subscriptions((I,), P)
    try: l.lookup((I,), {}, '')
    except TypeError: pass
gc.collect()
print("object growth:", len(gc.get_objects()) - n0)
