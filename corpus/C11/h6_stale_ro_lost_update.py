"""Deterministic witness: the thread switch between `ro.ro(self)` and `self.ro = ...` in a READER's
VerifyingAdapterLookup.changed() -> registry._refresh_ro() is simulated by running the mutator's
assignment exactly there (what another thread does between two bytecodes)."""
import sys
sys.path.insert(0, "/verif/harness/drivers")
import _boot
from zope.interface import Interface
from zope.interface import ro as zro
from zope.interface.adapter import VerifyingAdapterRegistry
class I(Interface): pass
class P(Interface): pass
base = VerifyingAdapterRegistry(); other = VerifyingAdapterRegistry(); reg = VerifyingAdapterRegistry((other,))
base.register([I], P, '', 'from-base'); other.register([I], P, '', 'from-other')
assert reg.lookup([I], P, '') == 'from-other'
orig, state = zro.ro, {"armed": True}
def racing_ro(C, *a, **k):
    r = orig(C, *a, **k)
    if state["armed"] and C is reg:
        state["armed"] = False
        reg.__bases__ = (base,)        # the mutator thread runs here, completely
    return r
zro.ro = racing_ro
other.register([I], P, 'x', 'bump')    # a generation bump above: the next lookup's _verify calls changed()
got = reg.lookup([I], P, '')           # the reader
zro.ro = orig
names = lambda l: ["reg" if r is reg else "base" if r is base else "other" for r in l]
print("__bases__ =", names(reg.__bases__), " reg.ro =", names(reg.ro), " interrupted lookup ->", got,
      " later lookups ->", reg.lookup([I], P, ''), reg.lookup([I], P, ''))
ok = names(reg.ro) == ["reg", "base"] and reg.lookup([I], P, '') == 'from-base'
print("CONSISTENT" if ok else "STALE RESOLUTION ORDER SURVIVES")
