import sys, threading, time
sys.path.insert(0, "/verif/harness/drivers")
import _boot
from zope.interface import Interface
from zope.interface.adapter import AdapterRegistry
sys.setswitchinterval(1e-6)
class I(Interface): pass
class J(I): pass
class P(Interface): pass
reg = AdapterRegistry()
reg.register([I], P, '', 'a')
stop = time.time() + float(sys.argv[1])
errs = []
def reader():
    while time.time() < stop:
        try:
            for k in range(50):
                r = reg.lookup([J], P, '')
                assert r in ('a', 'b', None), r
                reg.lookupAll([J], P); reg.subscriptions([J], P)
        except Exception as e:
            errs.append(repr(e)); return
def writer():
    i = 0
    while time.time() < stop:
        i += 1
        reg.register([J], P, '', 'b'); reg.unregister([J], P, '')
        reg.subscribe([J], P, i); reg.unsubscribe([J], P, i)
ts = [threading.Thread(target=reader) for _ in range(3)] + [threading.Thread(target=writer)]
[t.start() for t in ts]; [t.join() for t in ts]
print("done", errs[:3])
