import sys, gc
sys.path.insert(0, "/verif/harness/drivers")
import _boot
from zope.interface import Interface
from zope.interface import _zope_interface_coptimizations as C
class I(Interface): pass
class P(Interface): pass
class Reg:
    def __init__(self): self.ro = [self]
class Base:
    def __init__(self, vb): self.vb = vb; self.n = 0; self.armed = False
    @property
    def _generation(self):
        self.n += 1
        if self.armed:
            self.armed = False
            self.vb.changed(None)      # frees _verify_ro while C iterates it
            junk = [tuple(range(i % 7)) for i in range(2000)]  # reuse freed memory
        return self.n // 1000
class VB(C.VerifyingBase):
    def _uncached_lookup(self, required, provided, name=''): return "r"
vb = VB()
reg = Reg(); vb._registry = reg
bases = [Base(vb) for _ in range(30)]
reg.ro = [reg] + bases
vb.changed(None)
for k in range(3000):
    bases[0].armed = True
    vb.lookup((I,), P, '')
print("survived")
