# Witness kept for the record (fixed in /repo 06b84f0): readers adding to AdapterLookupBase._required while the
# mutator's changed() iterated it made register() raise RuntimeError and left a pre-mutation answer in a sub-registry.
# usage: ZI_SCRATCH=<scratch build> ZI_MODE=c|py python h4_stale_after_mutator_exception.py 10
import sys, threading, time
sys.path.insert(0, "/verif/harness/drivers")
import _boot
from zope.interface import Interface
from zope.interface.interface import InterfaceClass
from zope.interface.adapter import AdapterRegistry
sys.setswitchinterval(1e-6)
class P(Interface): pass
pool = [InterfaceClass("I%d" % i, (Interface,), {}) for i in range(60)]
base = AdapterRegistry(); sub = AdapterRegistry((base,))
base.register([pool[0]], P, '', 'v0')
stop = time.time() + float(sys.argv[1]); errs = []
def reader():
    while time.time() < stop:
        for i in pool:
            base.lookup([i], P, '')
def writer():
    k = 0
    while time.time() < stop:
        k += 1
        sub.lookup([pool[0]], P, '')           # fill the sub-registry's cache
        try:
            base.register([pool[0]], P, '', 'v%d' % k)
        except RuntimeError as e:
            got = sub.lookup([pool[0]], P, '')
            errs.append(("register raised " + str(e), "sub-registry then answers", got, "registered", 'v%d' % k, "uncached", sub._v_lookup._uncached_lookup((pool[0],), P, '')))
            return
ts = [threading.Thread(target=reader) for _ in range(3)] + [threading.Thread(target=writer)]
[t.start() for t in ts]; [t.join() for t in ts]
print(errs[:2] or "no exception seen")
