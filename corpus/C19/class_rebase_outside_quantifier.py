"""C19, outside the quantifier: re-basing a class (K.__bases__ = ...) is not a declaration change.
implementedBy(K) is not told about it: its __bases__ still name the specifications of the OLD base
classes, and a cached super specification keeps the OLD remainder of the MRO."""
import sys
from zope.interface import Interface, implementer, providedBy, implementedBy, classImplements
class IA(Interface): pass
class IB(Interface): pass
@implementer(IA)
class A: pass
@implementer(IB)
class B: pass
class K(A): pass
class T(K): pass
t = T()
show = lambda s: sorted(i.__name__ for i in s.flattened())
print("mro", [c.__name__ for c in T.__mro__])
print("before  super(T,t):", show(providedBy(super(T, t))), " super(K,t):", show(providedBy(super(K, t))))
K.__bases__ = (B,)
print("mro", [c.__name__ for c in T.__mro__], "   (property text would now give IB for both)")
print("cached  super(T,t):", show(providedBy(super(T, t))), " super(K,t):", show(providedBy(super(K, t))))
classImplements(T)      # any declaration change on T drops T's cache
print("fresh   super(T,t):", show(providedBy(super(T, t))), " super(K,t):", show(providedBy(super(K, t))))
print("implementedBy(K):", show(implementedBy(K)), implementedBy(K).__bases__)
